import Cicada.Spec.C20
import Cicada.Thm.C01
/-!
Helper lemmas for C20: facts about the generated escape class, the tokenizer on `escape_path` output,
the expansion passes on an unquoted word they do not act on, list splitting of the completed line.
-/
namespace Cicada.C20
open Cicada Cicada.PL Cicada.TokLemmas Cicada.PassLemmas

/-! ### the escape class (a generated constant): what membership and non-membership give -/

/-- a character outside the class is none of the characters the tokenizer or list splitting branch on -/
theorem notClass_facts {c : Char} (h : inEscapeClass c = false) :
    c ≠ '$' ∧ c ≠ '(' ∧ c ≠ ')' ∧ c ≠ '\\' ∧ c ≠ ' ' ∧ c ≠ '\'' ∧ c ≠ '"' ∧ c ≠ '`' ∧ c ≠ '#' ∧ c ≠ '|' ∧ c ≠ '>' ∧ c ≠ '<' ∧
    c ≠ ';' ∧ c ≠ '&' := by
  refine ⟨?_, ?_, ?_, ?_, ?_, ?_, ?_, ?_, ?_, ?_, ?_, ?_, ?_, ?_⟩ <;> (intro e; subst e; revert h; decide)

theorem escapePath_cons (c : Char) (cs : Str) :
    escapePath (c :: cs) = (if inEscapeClass c then ['\\', c] else [c]) ++ escapePath cs := by
  simp [escapePath]

theorem escapePath_append (a b : Str) : escapePath (a ++ b) = escapePath a ++ escapePath b := by
  simp [escapePath]

/-! ### the tokenizer on escaped text -/

/-- inside an unquoted word with a backslash pending -/
def inWbs (r : List Tok) (t : Str) (hd : Bool) : St :=
  { result := r, token := t, newRound := false, hasDollar := hd, bs := true }
/-- between words with a backslash pending -/
def cleanbs (r : List Tok) (hd : Bool) : St := { result := r, hasDollar := hd, bs := true }

theorem step_clean_plain (r : List Tok) (hd : Bool) (c : Char) (n : Option Char) (h : inEscapeClass c = false) :
    step (clean r hd) c n = inW r [c] hd := by
  obtain ⟨a1, a2, a3, a4, a5, a6, a7, a8, a9, a10, _, _, _, _⟩ := notClass_facts h
  simp [step, clean, inW, isQ, a1, a2, a3, a4, a5, a6, a7, a8, a9, a10]

theorem step_inW_plain (r : List Tok) (t : Str) (hd : Bool) (c : Char) (n : Option Char) (h : inEscapeClass c = false) :
    step (inW r t hd) c n = inW r (t ++ [c]) hd := by
  obtain ⟨a1, a2, a3, a4, a5, a6, a7, a8, a9, a10, _, _, _, _⟩ := notClass_facts h
  simp [step, stepMid, stepTail, inW, isQ, a1, a2, a3, a4, a5, a6, a7, a8, a10]

theorem step_clean_bs (r : List Tok) (hd : Bool) (n : Option Char) : step (clean r hd) '\\' n = cleanbs r hd := by
  simp [step, clean, cleanbs]

theorem step_inW_bs (r : List Tok) (t : Str) (hd : Bool) (n : Option Char) : step (inW r t hd) '\\' n = inWbs r t hd := by
  simp [step, inW, inWbs]

theorem step_cleanbs (r : List Tok) (hd : Bool) (c : Char) (n : Option Char)
    (h1 : c ≠ '>') (h2 : c ≠ '<') (h3 : c ≠ '|') (h4 : c ≠ '$') :
    step (cleanbs r hd) c n = inW r [c] hd := by
  simp [step, cleanbs, inW, h1, h2, h3, h4]

theorem step_inWbs (r : List Tok) (t : Str) (hd : Bool) (c : Char) (n : Option Char) (h1 : c ≠ '>') (h2 : c ≠ '<') :
    step (inWbs r t hd) c n = inW r (t ++ [c]) hd := by
  simp [step, inWbs, inW, h1, h2]

/-- reading the escaped spelling of `w` inside an unquoted word appends exactly `w` -/
theorem go_escaped (w : Str) : ∀ (r : List Tok) (t : Str) (hd : Bool) (rest : Str), (∀ c ∈ w, c ≠ '>' ∧ c ≠ '<') →
    go (inW r t hd) (escapePath w ++ rest) = go (inW r (t ++ w) hd) rest := by
  induction w with
  | nil => intro r t hd rest _; simp [escapePath]
  | cons c cs ih =>
    intro r t hd rest h
    obtain ⟨h1, h2⟩ := h c (by simp)
    have hcs : ∀ x ∈ cs, x ≠ '>' ∧ x ≠ '<' := fun x hx => h x (by simp [hx])
    rw [escapePath_cons]
    by_cases hc : inEscapeClass c = true
    · simp only [hc, ↓reduceIte, List.cons_append, List.nil_append, go]
      rw [step_inW_bs, step_inWbs r t hd c _ h1 h2, ih _ _ _ _ hcs]
      simp [List.append_assoc]
    · have hc' : inEscapeClass c = false := by simpa using hc
      simp only [hc', Bool.false_eq_true, ↓reduceIte, List.cons_append, List.nil_append, go]
      rw [step_inW_plain r t hd c _ hc', ih _ _ _ _ hcs]
      simp [List.append_assoc]

/-- reading the escaped spelling of a word from between words -/
theorem go_escaped_clean (c : Char) (cs : Str) (r : List Tok) (hd : Bool) (rest : Str)
    (h : ∀ x ∈ c :: cs, x ≠ '>' ∧ x ≠ '<') (h3 : c ≠ '|') (h4 : c ≠ '$') :
    go (clean r hd) (escapePath (c :: cs) ++ rest) = go (inW r (c :: cs) hd) rest := by
  obtain ⟨h1, h2⟩ := h c (by simp)
  have hcs : ∀ x ∈ cs, x ≠ '>' ∧ x ≠ '<' := fun x hx => h x (by simp [hx])
  rw [escapePath_cons]
  by_cases hc : inEscapeClass c = true
  · simp only [hc, ↓reduceIte, List.cons_append, List.nil_append, go]
    rw [step_clean_bs, step_cleanbs r hd c _ h1 h2 h3 h4, go_escaped cs _ _ _ _ hcs]
    simp
  · have hc' : inEscapeClass c = false := by simpa using hc
    simp only [hc', Bool.false_eq_true, ↓reduceIte, List.cons_append, List.nil_append, go]
    rw [step_clean_plain r hd c _ hc', go_escaped cs _ _ _ _ hcs]
    simp

/-- **tokenizer round trip, unquoted**: a plain program word followed by the escaped spelling of `n` is read back
as the two unquoted tokens `prog`, `n` -/
theorem parseLine_escaped (p n : Str) (hw : p.all wordChar = true) (hl : p.any isAlphaA = true)
    (hne : n ≠ []) (hlg : ∀ c ∈ n, c ≠ '>' ∧ c ≠ '<') (hp : n.head? ≠ some '|') (hd : n.head? ≠ some '$') :
    parseLine (p ++ ' ' :: escapePath n) = [([], p), ([], n)] := by
  have harith : isArithmetic (p ++ ' ' :: escapePath n) = false := by
    apply any_alpha_not_arith
    simp [List.any_append, hl]
  obtain ⟨c, cs, rfl⟩ : ∃ c cs, p = c :: cs := by
    cases p with
    | nil => simp at hl
    | cons c cs => exact ⟨c, cs, rfl⟩
  obtain ⟨d, ds, rfl⟩ : ∃ d ds, n = d :: ds := by
    cases n with
    | nil => exact absurd rfl hne
    | cons d ds => exact ⟨d, ds, rfl⟩
  simp only [List.all_cons, Bool.and_eq_true] at hw
  have h3 : d ≠ '|' := by intro e; apply hp; simp [e]
  have h4 : d ≠ '$' := by intro e; apply hd; simp [e]
  have e0 : ({} : St) = clean [] false := rfl
  simp only [List.cons_append] at harith
  simp only [parseLine, parseLineInfo, List.cons_append, harith, Bool.false_eq_true, ↓reduceIte, go]
  rw [e0, step_clean_word [] false c _ hw.1, go_word cs [] [c] false _ hw.2]
  simp only [List.cons_append, List.nil_append, go]
  rw [step_inW_space]
  have := go_escaped_clean d ds ([] ++ [([], c :: cs)]) false [] hlg h3 h4
  simp only [List.append_nil] at this
  rw [this]
  simp [go, finish, inW]

/-! ### the expansion passes leave an unquoted word alone that holds none of `$` `` ` `` `*` `{` and does not start with `~` -/

theorem doExpansion_id_unq (se : SubstEnv) (p n : Str) (f : Nat)
    (hw : p.all wordChar = true) (hl : p.any isAlphaA = true)
    (ha : lookup se.env.aliases p = none) (hx : p ≠ "xargs".toList) (hf : 3 < f)
    (m1 : ∀ c ∈ n, c ≠ '$') (m2 : ∀ c ∈ n, c ≠ '`') (m3 : ∀ c ∈ n, c ≠ '*') (m4 : ∀ c ∈ n, c ≠ '{')
    (m5 : n.head? ≠ some '~') (m6 : n ≠ ['|']) :
    doExpansion se f [([], p), ([], n)] = .ok [([], p), ([], n)] := by
  cases f with
  | zero => omega
  | succ f =>
    have n1 := word_no p hw '|' (by decide)
    have n2 := word_no p hw '~' (by decide)
    have n3 := word_no p hw '$' (by decide)
    have n4 := word_no p hw '{' (by decide)
    have n5 := word_no p hw '*' (by decide)
    have n6 := word_no p hw '`' (by decide)
    have hp1 : p ≠ ['|'] := by intro e; exact n1 '|' (by simp [e]) rfl
    have hph : p.head? ≠ some '~' := by
      cases p with
      | nil => simp
      | cons c cs => intro e; simp at e; exact n2 c (by simp) e
    have harith : isArithmetic (tokensToLine [([], p), ([], n)]) = false := by
      apply any_alpha_not_arith
      simp only [tokensToLine, List.map_cons]
      apply joinWith_any_head
      simpa [tokenToText] using hl
    have hns : ∀ t ∈ [(([] : Str), p), ([], n)], NoSubst t := by
      intro t ht
      simp at ht
      rcases ht with rfl | rfl
      · exact Or.inr ⟨Or.inr rfl, matchBackquote_none _ n6, shouldDoDollar_false _ n3⟩
      · exact Or.inr ⟨Or.inr rfl, matchBackquote_none _ m2, shouldDoDollar_false _ m1⟩
    have hx' : ¬ p = ['x', 'a', 'r', 'g', 's'] := hx
    have e1 : expandAlias se.env [([], p), ([], n)] = [([], p), ([], n)] := by
      simp [expandAlias, expandAliasGo, hp1, hx', ha, m6]
    have e2 : expandHome se.env [([], p), ([], n)] = [([], p), ([], n)] := by
      simp [expandHome, hph, m5]
    have e3 : expandEnv se.env [([], p), ([], n)] = [([], p), ([], n)] := by
      simp [expandEnv, envInToken_false p n3, envInToken_false n m1]
    have e4 : expandBrace [([], p), ([], n)] = .ok [([], p), ([], n)] := by
      simp [expandBrace, Outcome.bind, needExpandBrace_false p n4, needExpandBrace_false n m4]
    have g1 : ¬ ('*' ∈ p) := fun hm => n5 '*' hm rfl
    have g2 : ¬ ('*' ∈ n) := fun hm => m3 '*' hm rfl
    have e5 : expandGlob se.env [([], p), ([], n)] = [([], p), ([], n)] := by
      simp [expandGlob, expandGlobGo, globToken, g1, g2]
    have e6 : expandBraceRange [([], p), ([], n)] = [([], p), ([], n)] := by
      simp [expandBraceRange, expandRangeGo, rangeToken, findRange_none p n4, findRange_none n m4]
    simp only [doExpansion, harith, Bool.false_eq_true, ↓reduceIte]
    split
    · rfl
    · rw [e1, e2, e3, e4]
      simp only [Outcome.bind]
      rw [e5, substDotGo_none se _ f 0 (by simp; omega) hns]
      simp only [doExpansion.applyUpdates, List.foldl_nil]
      rw [substDollarGo_none se _ f 0 (by simp; omega) hns]
      simp only [List.foldl_nil, e6]

/-! ### list splitting leaves the completed line alone -/

theorem isListSep_wordHead (c : Char) (t : Str) (hc : wordChar c = true) : isListSep (c :: t) = false := by
  obtain ⟨_, _, _, _, _, _, _, _, _, a10, _, _⟩ := wordChar_facts hc
  have a13 : c ≠ ';' := by intro e; subst e; revert hc; decide
  have a14 : c ≠ '&' := by intro e; subst e; revert hc; decide
  simp [isListSep, a10, a13, a14]

/-- a list-safe line that starts with a word character and ends with a non-blank is one command: itself -/
theorem lineToCmds_one (c d : Char) (cs ys : Str) (e : c :: cs = ys ++ [d]) (hc : wordChar c = true) (hd : isWs d = false)
    (hs : C03.safeSeg none false (c :: cs) = true) : lineToCmds (c :: cs) = [c :: cs] := by
  have htrim : trim (c :: cs) = c :: cs := C01.trim_id c d cs ys e (C01.wordChar_nonws c hc) hd
  let pr : C03.Prog := { first := c :: cs, rest := [] }
  have hr : C03.render pr = c :: cs := by simp [C03.render, pr]
  have hg : C03.guard pr = true := by
    simp [C03.guard, C03.segOk, pr, hs, htrim, isListSep_wordHead c cs hc]
  have h := C03.lineToCmds_render pr hg
  rw [hr] at h
  rw [h]
  simp [C03.items, C03.itemsRest, pr, htrim]

theorem safeSeg_escape (n : Str) (b : Str) : C03.safeSeg none false (escapePath n ++ b) = C03.safeSeg none false b := by
  induction n with
  | nil => simp [escapePath]
  | cons c cs ih =>
    rw [escapePath_cons]
    by_cases hc : inEscapeClass c = true
    · simp [hc, C03.safeSeg, ih]
    · have hc' : inEscapeClass c = false := by simpa using hc
      obtain ⟨_, _, _, a4, _, a6, a7, a8, a9, a10, _, _, a13, a14⟩ := notClass_facts hc'
      simp [hc', C03.safeSeg, a4, a6, a7, a8, a9, a10, a13, a14, ih]

/-- the escaped spelling ends with the last character of the text -/
theorem escapePath_snoc (ys : Str) (d : Char) : ∃ zs, escapePath (ys ++ [d]) = zs ++ [d] := by
  rw [escapePath_append]
  by_cases hc : inEscapeClass d = true
  · exact ⟨escapePath ys ++ ['\\'], by simp [escapePath, hc]⟩
  · have hc' : inEscapeClass d = false := by simpa using hc
    exact ⟨escapePath ys, by simp [escapePath, hc']⟩

/-! ### planning the completed line -/

def onePlan (prog arg : Str) (sep : Str) : Plan :=
  { commands := [{ tokens := [([], prog), (sep, arg)], redirectsTo := [], redirectFrom := none }], envs := [], background := false }

theorem okUnq_facts {n : Str} (h : okUnq n = true) :
    n ≠ [] ∧ n.head? ≠ some '~' ∧ n.head? ≠ some '|' ∧
    (∀ c ∈ n, c ≠ '$' ∧ c ≠ '`' ∧ c ≠ '*' ∧ c ≠ '{' ∧ c ≠ '<' ∧ c ≠ '>') ∧ n ≠ ['&'] ∧
    ∃ ys d, n = ys ++ [d] ∧ isWs d = false := by
  simp [okUnq] at h
  obtain ⟨⟨⟨⟨⟨h1, h2⟩, h3⟩, h4⟩, h5⟩, h6⟩ := h
  refine ⟨h1, h2, h3, ?_, h5, ?_⟩
  · intro c hc
    obtain ⟨⟨⟨⟨⟨a, b⟩, c'⟩, d⟩, e⟩, f⟩ := h4 c hc
    exact ⟨a, b, c', d, e, f⟩
  · rcases List.eq_nil_or_concat n with rfl | ⟨ys, d, e⟩
    · exact absurd rfl h1
    · rw [List.concat_eq_append] at e
      subst e
      refine ⟨ys, d, rfl, ?_⟩
      simpa using h6

/-- **the unquoted round trip, as a plan**: the line `prog <escaped n>` is one command, planned as one stage
whose tokens are `prog` and `n` -/
theorem plan_unq (se : SubstEnv) (f : Nat) (prog n : Str)
    (hp : C01.plainWord prog = true) (ha : lookup se.env.aliases prog = none) (hx : prog ≠ "xargs".toList)
    (hf : 4 < f) (hn : okUnq n = true) :
    planLine se f (prog ++ ' ' :: escapePath n) = .ok (.ok (onePlan prog n [])) := by
  obtain ⟨hw, hl⟩ := C01.plainWord_facts prog hp
  obtain ⟨hne, hh, hpipe, hall, hamp, ys, d, rfl, hd⟩ := okUnq_facts hn
  obtain ⟨c, cs, rfl⟩ : ∃ c cs, prog = c :: cs := by
    cases prog with
    | nil => simp at hl
    | cons c cs => exact ⟨c, cs, rfl⟩
  have hcw : wordChar c = true := by simp at hw; exact hw.1
  obtain ⟨zs, hz⟩ := escapePath_snoc ys d
  have hline : c :: cs ++ ' ' :: escapePath (ys ++ [d]) = c :: (cs ++ ' ' :: zs ++ [d]) := by
    rw [hz]; simp
  have hsafe : C03.safeSeg none false (c :: cs ++ ' ' :: escapePath (ys ++ [d])) = true := by
    rw [C01.safeSeg_word (c :: cs) _ hw]
    have := safeSeg_escape (ys ++ [d]) []
    simp only [List.append_nil] at this
    simp [C03.safeSeg, this]
  have hone : lineToCmds (c :: cs ++ ' ' :: escapePath (ys ++ [d])) = [c :: cs ++ ' ' :: escapePath (ys ++ [d])] := by
    have h := lineToCmds_one c d (cs ++ ' ' :: zs ++ [d]) (c :: cs ++ ' ' :: zs) (by simp) hcw hd (by rw [← hline]; exact hsafe)
    rw [hline]; exact h
  cases f with
  | zero => omega
  | succ f =>
    simp only [planLine, hone, planOf]
    rw [parseLine_escaped (c :: cs) (ys ++ [d]) hw hl hne (fun x hx => ⟨(hall x hx).2.2.2.2.2, (hall x hx).2.2.2.2.1⟩) hpipe
      (by
        intro e
        have : '$' ∈ ys ++ [d] := by
          cases hyd : ys ++ [d] with
          | nil => rw [hyd] at e; simp at e
          | cons a as => rw [hyd] at e; simp at e; simp [e]
        exact (hall '$' this).1 rfl)]
    have hnp : ys ++ [d] ≠ ['|'] := by
      intro e; apply hpipe; rw [e]; rfl
    rw [doExpansion_id_unq se (c :: cs) (ys ++ [d]) f hw hl ha hx (by omega)
      (fun x hx => (hall x hx).1) (fun x hx => (hall x hx).2.1) (fun x hx => (hall x hx).2.2.1) (fun x hx => (hall x hx).2.2.2.1) hh hnp]
    simp only [Outcome.map, Outcome.bind]
    have hpe := word_no (c :: cs) hw '=' (by decide)
    have hpa : ArgTok ([], c :: cs) := by
      refine Or.inr ⟨?_, ?_, ?_, ?_⟩
      · intro e; exact word_no (c :: cs) hw '|' (by decide) '|' (by have e' : c :: cs = _ := e; rw [e']; simp) rfl
      · intro e
        have e' : (c :: cs).head? = some '<' := e
        exact word_no (c :: cs) hw '<' (by decide) '<' (List.mem_of_mem_head? e') rfl
      · intro e; exact word_no (c :: cs) hw '&' (by decide) '&' (by have e' : c :: cs = _ := e; rw [e']; simp) rfl
      · exact word_no (c :: cs) hw '>' (by decide)
    have hqa : ∀ t ∈ [(([] : Str), ys ++ [d])], ArgTok t := by
      intro t ht
      simp at ht
      subst ht
      refine Or.inr ⟨hnp, ?_, hamp, fun x hx => (hall x hx).2.2.2.2.2⟩
      · intro e
        have e' : (ys ++ [d]).head? = some '<' := e
        exact (hall '<' (List.mem_of_mem_head? e')).2.2.2.2.1 rfl
    have hlast : (([], c :: cs) :: [(([] : Str), ys ++ [d])]).length > 1 →
        (([], c :: cs) :: [(([] : Str), ys ++ [d])]).getLast? ≠ some ([], ['&']) := by
      intro _ e
      simp at e
      exact hamp e
    rw [planOfTokens_args (c :: cs) [([], ys ++ [d])] hpe hpa hqa hlast]
    rfl

/-! ### the quoted contexts: `wrap_sep_string` on a text free of the quote is plain quoting (C01's rendering) -/

theorem wrapBody_id (q : Char) (n : Str) (h : ∀ c ∈ n, c ≠ q) : ∀ met prev, wrapBody [q] met prev n = n := by
  induction n with
  | nil => intro _ _; rfl
  | cons c cs ih =>
    intro met prev
    have hc : c ≠ q := h c (by simp)
    simp [wrapBody, hc, ih (fun x hx => h x (by simp [hx]))]

theorem wrapSepString_id (q : Char) (n : Str) (h : ∀ c ∈ n, c ≠ q) : wrapSepString [q] n = q :: n ++ [q] := by
  simp [wrapSepString, wrapBody_id q n h]

/-- a plain program word followed by one single- or double-quoted argument is one command, planned as one stage -/
theorem plan_quoted (se : SubstEnv) (f : Nat) (prog : Str) (sty : C01.Style) (n : Str)
    (hg : C01.guard se.env prog [(sty, n)] = true) (hf : 4 < f) :
    planLine se f (C01.renderCmd prog [(sty, n)]) = .ok (.ok (onePlan prog n (tokOf (sty, n)).1)) := by
  have hg' := hg
  simp only [C01.guard, Bool.and_eq_true, decide_eq_true_eq] at hg'
  obtain ⟨⟨⟨hp, _⟩, _⟩, hsty⟩ := hg'
  obtain ⟨hw, hl⟩ := C01.plainWord_facts prog hp
  have hne : prog ≠ [] := by intro e; subst e; simp at hl
  obtain ⟨ys, d, hsn, hd⟩ := C01.renderCmd_snoc prog [(sty, n)] hw hne hsty
  obtain ⟨c, cs, rfl⟩ : ∃ c cs, prog = c :: cs := by
    cases prog with
    | nil => exact absurd rfl hne
    | cons c cs => exact ⟨c, cs, rfl⟩
  have hcw : wordChar c = true := by simp at hw; exact hw.1
  have hrc : C01.renderCmd (c :: cs) [(sty, n)] = c :: (cs ++ argsText [(sty, n)]) := by simp [C01.renderCmd, argsText]
  have hsafe : C03.safeSeg none false (C01.renderCmd (c :: cs) [(sty, n)]) = true := by
    have h1 := C01.safeSeg_word (c :: cs) (argsText [(sty, n)] ++ []) hw
    have h2 := C01.safeSeg_args [(sty, n)] [] hsty
    simp only [List.append_nil] at h1 h2
    have e : C01.renderCmd (c :: cs) [(sty, n)] = c :: cs ++ argsText [(sty, n)] := by simp [C01.renderCmd, argsText]
    rw [e, h1, h2]; rfl
  have hone : lineToCmds (C01.renderCmd (c :: cs) [(sty, n)]) = [C01.renderCmd (c :: cs) [(sty, n)]] := by
    rw [hrc] at hsn hsafe ⊢
    exact lineToCmds_one c d _ ys hsn hcw hd hsafe
  simp only [planLine, hone]
  rw [C01.plan_renderCmd se f (c :: cs) [(sty, n)] hg (by simp; omega)]
  cases sty <;> rfl

/-! ### the completer: directory part, doubled slash, the offer for one entry -/

theorem rds_noslash (n : Str) (h : ∀ c ∈ n, c ≠ '/') : replaceDoubleSlash n = n := by
  induction n with
  | nil => rfl
  | cons c cs ih =>
    have hc : c ≠ '/' := h c (by simp)
    rw [replaceDoubleSlash]
    · rw [ih (fun x hx => h x (by simp [hx]))]
    · intro r e; exact absurd e hc

/-- a directory part `d/` (no `//` inside) followed by `/name`: the doubled slash collapses -/
theorem rds_dir (d n : Str) (h1 : containsSub (d ++ ['/']) ['/', '/'] = false) (h2 : ∀ c ∈ n, c ≠ '/') :
    replaceDoubleSlash (d ++ '/' :: '/' :: n) = d ++ '/' :: n := by
  induction d with
  | nil => simp [replaceDoubleSlash, rds_noslash n h2]
  | cons c cs ih =>
    simp only [List.cons_append, containsSub, Bool.or_eq_false_iff] at h1
    obtain ⟨hs, hrest⟩ := h1
    simp only [List.cons_append]
    rw [replaceDoubleSlash]
    · rw [ih hrest]
    · intro r e1 e2
      subst e1
      cases cs with
      | nil => simp [startsWith] at hs
      | cons x xs =>
        simp at e2
        simp [startsWith, e2.1] at hs

/-! ### `uptoLast` / `afterLast` -/
theorem upto_after (d : Char) (p : Str) : uptoLast d p ++ afterLast d p = p := by
  simp only [uptoLast, afterLast]
  rw [← List.reverse_append, List.takeWhile_append_dropWhile, List.reverse_reverse]

theorem uptoLast_shape (d : Char) (p : Str) : uptoLast d p = [] ∨ ∃ a, uptoLast d p = a ++ [d] := by
  simp only [uptoLast]
  cases h : p.reverse.dropWhile (· ≠ d) with
  | nil => left; rfl
  | cons x xs =>
    right
    have := List.head?_dropWhile_not (fun x => decide (x ≠ d)) p.reverse
    rw [h] at this
    simp at this
    exact ⟨xs.reverse, by simp [this]⟩

theorem containsSub_prefix (a b pat : Str) (h : containsSub (a ++ b) pat = false) (hp : pat ≠ []) : containsSub a pat = false := by
  induction a with
  | nil =>
    cases pat with
    | nil => exact absurd rfl hp
    | cons x xs => simp [containsSub]
  | cons c cs ih =>
    simp only [List.cons_append, containsSub, Bool.or_eq_false_iff] at h ⊢
    refine ⟨?_, ih h.2⟩
    have key : ∀ (u v pat : Str), startsWith (u ++ v) pat = false → startsWith u pat = false := by
      intro u
      induction u with
      | nil => intro v pat hh; cases pat with
        | nil => simp [startsWith] at hh
        | cons y ys => simp [startsWith]
      | cons z zs ihu =>
        intro v pat hh
        cases pat with
        | nil => simp [startsWith] at hh
        | cons y ys =>
          simp only [List.cons_append, startsWith, Bool.and_eq_false_iff, decide_eq_false_iff_not] at hh ⊢
          rcases hh with hh | hh
          · exact Or.inl hh
          · exact Or.inr (ihu v ys hh)
    exact key (c :: cs) b pat h.1

theorem full_name (pre n : Str) (h1 : containsSub pre ['/', '/'] = false) (h2 : ∀ c ∈ n, c ≠ '/') :
    replaceDoubleSlash (if uptoLast '/' pre ≠ [] then uptoLast '/' pre ++ '/' :: n else n) = uptoLast '/' pre ++ n := by
  rcases uptoLast_shape '/' pre with h | ⟨a, h⟩
  · simp [h, rds_noslash n h2]
  · have hc : containsSub (a ++ ['/']) ['/', '/'] = false := by
      apply containsSub_prefix (a ++ ['/']) (afterLast '/' pre) _ _ (by simp)
      rw [← h, upto_after]; exact h1
    have := rds_dir a n hc h2
    simp [h, this]

/-- what the model builds for one entry is the spec's offer -/
theorem mkCompletion_offer (ctx : Ctx) (pre n : Str) (d : Bool) (h1 : containsSub pre ['/', '/'] = false) (h2 : ∀ c ∈ n, c ≠ '/') :
    mkCompletion ctx.sep false (uptoLast '/' pre) n d = offer ctx (uptoLast '/' pre) (n, d) := by
  unfold mkCompletion
  simp only [full_name pre n h1 h2]
  cases ctx <;> cases d <;> simp [offer, insertText, Ctx.sep]

/-! ### the typed word: how `parse_line` reads a prefix typed in each context, and the gates of `complete_path` -/

theorem plain_notClass {c : Char} (h : plainChar c = true) : inEscapeClass c = false := by
  cases hc : inEscapeClass c with
  | false => rfl
  | true =>
    exfalso
    have hm : c ∈ Generated.escapeClass := by simpa [inEscapeClass] using hc
    have all : ∀ x ∈ Generated.escapeClass, plainChar x = false := by decide
    have := all c hm
    rw [h] at this
    cases this

theorem escapePath_plain (p : Str) (h : p.all plainChar = true) : escapePath p = p := by
  induction p with
  | nil => rfl
  | cons c cs ih =>
    simp only [List.all_cons, Bool.and_eq_true] at h
    rw [escapePath_cons, plain_notClass h.1, ih h.2]
    simp

theorem splitOnChar_none (d : Char) (l : Str) (h : ∀ c ∈ l, c ≠ d) : splitOnChar d l = [l] := by
  induction l with
  | nil => rfl
  | cons c cs ih =>
    have hc : c ≠ d := h c (by simp)
    simp [splitOnChar, ih (fun x hx => h x (by simp [hx])), hc]

theorem plain_is_word (p : Str) (h : p.all plainChar = true) : p.all wordChar = true := h

theorem parseLine_plain (w : Str) (hw : w.all wordChar = true) (hne : w ≠ []) : parseLine w = [([], w)] := by
  obtain ⟨c, cs, rfl⟩ : ∃ c cs, w = c :: cs := by
    cases w with
    | nil => exact absurd rfl hne
    | cons c cs => exact ⟨c, cs, rfl⟩
  by_cases ha : isArithmetic (c :: cs) = true
  · have hb : ∀ x ∈ c :: cs, x ≠ ' ' := word_no (c :: cs) hw ' ' (by decide)
    simp [parseLine, parseLineInfo, ha, splitOnChar_none ' ' (c :: cs) hb]
  · have ha' : isArithmetic (c :: cs) = false := by simpa using ha
    simp only [List.all_cons, Bool.and_eq_true] at hw
    have e0 : ({} : St) = clean [] false := rfl
    simp only [parseLine, parseLineInfo, ha', Bool.false_eq_true, ↓reduceIte, go]
    rw [e0, step_clean_word [] false c _ hw.1]
    have := go_word cs [] [c] false [] hw.2
    simp only [List.append_nil] at this
    rw [this]
    simp [go, finish, inW]

theorem not_arith_quote (q : Char) (pre : Str) (hq : arithBody q = false) (hne : pre ≠ []) : isArithmetic (q :: pre) = false := by
  have : reArithShape (q :: pre) = false := by
    unfold reArithShape
    cases h : (q :: pre).getLast? with
    | none => rfl
    | some last =>
      simp [List.dropLast_cons_of_ne_nil hne, hq]
  simp [isArithmetic, this]

theorem parseLine_open_sq (pre : Str) (hne : pre ≠ []) (h : ∀ c ∈ pre, c ≠ '\'') : parseLine ('\'' :: pre) = [(['\''], pre)] := by
  have ha := not_arith_quote '\'' pre (by decide) hne
  have e0 : ({} : St) = clean [] false := rfl
  simp only [parseLine, parseLineInfo, ha, Bool.false_eq_true, ↓reduceIte, go]
  rw [e0, step_clean_quote [] false '\'' _ (Or.inl rfl)]
  have := go_sq_body pre [] [] false [] h
  simp only [List.append_nil, List.nil_append] at this
  rw [this]
  simp [go, finish, inQ, hne]

theorem parseLine_open_dq (pre : Str) (hne : pre ≠ []) (h : ∀ c ∈ pre, c ≠ '$' ∧ c ≠ '`' ∧ c ≠ '\\' ∧ c ≠ '"') :
    parseLine ('"' :: pre) = [(['"'], pre)] := by
  have ha := not_arith_quote '"' pre (by decide) hne
  have e0 : ({} : St) = clean [] false := rfl
  simp only [parseLine, parseLineInfo, ha, Bool.false_eq_true, ↓reduceIte, go]
  rw [e0, step_clean_quote [] false '"' _ (Or.inr rfl)]
  have := go_dq_body pre [] [] false [] h
  simp only [List.append_nil, List.nil_append] at this
  rw [this]
  simp [go, finish, inQ, hne]
theorem isEnvPrefix_false (p : Str) (h : ∀ c ∈ p, c ≠ '$') : isEnvPrefix p = false := by
  induction p with
  | nil => rfl
  | cons c cs ih =>
    have hc := h c (by simp)
    simp [isEnvPrefix, hc, ih (fun x hx => h x (by simp [hx]))]

theorem needsExpandHome_go_false (p : Str) (h : ∀ c ∈ p, c ≠ '~') : needsExpandHome.go p = false := by
  induction p with
  | nil => rfl
  | cons c cs ih =>
    have ih' := ih (fun x hx => h x (by simp [hx]))
    cases cs with
    | nil => simp [needsExpandHome.go]
    | cons x xs =>
      have hx : x ≠ '~' := h x (by simp)
      simp [needsExpandHome.go, hx] at ih' ⊢
      exact ih'

theorem needsExpandHome_false (p : Str) (h : ∀ c ∈ p, c ≠ '~') : needsExpandHome p = false := by
  have h1 : (match p.dropWhile (· = ' ') with
      | '~' :: '/' :: _ => true
      | _ => false) = false := by
    induction p with
    | nil => rfl
    | cons c cs ih =>
      by_cases hc : c = ' '
      · simp only [List.dropWhile, hc, decide_true]
        exact ih (fun x hx => h x (by simp [hx]))
      · have ht : c ≠ '~' := h c (by simp)
        simp only [List.dropWhile, hc, decide_false]
        split
        · rename_i heq; simp at heq; exact absurd heq.1 ht
        · rfl
  simp only [needsExpandHome, needsExpandHome_go_false p h, Bool.or_false]
  exact h1

theorem expandEnvString_id (envVar : Str → Option Str) (p : Str) (h : p.head? ≠ some '$') : expandEnvString envVar p = p := by
  cases p with
  | nil => rfl
  | cons c cs =>
    have hc : c ≠ '$' := by intro e; apply h; simp [e]
    unfold expandEnvString
    split
    · rename_i heq; simp at heq; exact absurd heq.1 hc
    · rfl

theorem okPrefix_facts (ctx : Ctx) (pre : Str) (h : okPrefix ctx pre = true) :
    lastToken (typedWord ctx pre) = (ctx.sep, pre) ∧
    isEnvPrefix (typedWord ctx pre) = false ∧ needsExpandHome pre = false ∧ pre.head? ≠ some '$' ∧
    containsSub pre ['/', '/'] = false := by
  cases ctx with
  | unq =>
    simp only [okPrefix, Bool.and_eq_true, Bool.not_eq_true'] at h
    obtain ⟨hpl, hss⟩ := h
    have hw : pre.all wordChar = true := hpl
    have e : typedWord .unq pre = pre := escapePath_plain pre hpl
    rw [e]
    refine ⟨?_, isEnvPrefix_false pre (word_no pre hw '$' (by decide)), needsExpandHome_false pre (word_no pre hw '~' (by decide)), ?_, hss⟩
    · by_cases hne : pre = []
      · subst hne; rfl
      · simp only [lastToken]; rw [parseLine_plain pre hw hne]; rfl
    · cases pre with
      | nil => simp
      | cons c cs => intro e; simp at e; exact word_no (c :: cs) hw '$' (by decide) c (by simp) e
  | sq =>
    simp only [okPrefix, okPrefix.generic, Bool.and_eq_true, Bool.not_eq_true', decide_eq_true_eq, bne_iff_ne, ne_eq] at h
    obtain ⟨⟨hne, hq⟩, ⟨⟨⟨hh, hd⟩, he⟩, hss⟩⟩ := h
    have hq' : ∀ c ∈ pre, c ≠ '\'' := by
      intro c hc e; subst e; simp at hq; exact hq hc
    refine ⟨?_, ?_, hh, hd, hss⟩
    · simp only [typedWord, lastToken]; rw [parseLine_open_sq pre hne hq']; rfl
    · simp [typedWord, isEnvPrefix, he]
  | dq =>
    simp only [okPrefix, okPrefix.generic, Bool.and_eq_true, Bool.not_eq_true', decide_eq_true_eq, bne_iff_ne, ne_eq] at h
    obtain ⟨⟨hne, hq⟩, ⟨⟨⟨hh, hd⟩, he⟩, hss⟩⟩ := h
    have hq' : ∀ c ∈ pre, c ≠ '$' ∧ c ≠ '`' ∧ c ≠ '\\' ∧ c ≠ '"' := by
      intro c hc
      have := (List.all_eq_true.mp hq) c hc
      simp only [Bool.and_eq_true, decide_eq_true_eq, bne_iff_ne, ne_eq] at this
      obtain ⟨⟨⟨a, b⟩, c'⟩, d⟩ := this
      exact ⟨a, b, c', d⟩
    refine ⟨?_, ?_, hh, hd, hss⟩
    · simp only [typedWord, lastToken]; rw [parseLine_open_dq pre hne hq']; rfl
    · simp [typedWord, isEnvPrefix, he]

/-! ### `escaped_word_start`: byte arithmetic -/

theorem utf8Len_append (a b : Str) : utf8Len (a ++ b) = utf8Len a + utf8Len b := by
  simp [utf8Len, List.sum_append]

/-- the `found_space` prologue of one round -/
def ewsPro (s : EWS.St) (i : Nat) : EWS.St := if s.space then { s with space := false, start := i + s.extra } else s
/-- the rest of the round -/
def ewsBody (s : EWS.St) (c : Char) : EWS.St :=
  if c = '\\' then { s with bs := true }
  else if c = ' ' ∧ !s.bs ∧ !s.quote then { s with space := true }
  else
    let s :=
      if !s.quote ∧ !s.bs ∧ (c = '"' ∨ c = '\'') then { s with quote := true, chq := c }
      else if s.quote ∧ !s.bs ∧ s.chq = c then { s with quote := false }
      else s
    { s with extra := s.extra + (c.utf8Size - 1), bs := false }

theorem ews_step_eq (s : EWS.St) (i : Nat) (c : Char) : EWS.step s i c = ewsBody (ewsPro s i) c := rfl

theorem ewsBody_start (t : EWS.St) (c : Char) : (ewsBody t c).start = t.start := by
  unfold ewsBody
  split
  · rfl
  · split
    · rfl
    · simp only
      split
      · rfl
      · split <;> rfl

theorem ewsBody_extra (t : EWS.St) (c : Char) : (ewsBody t c).extra + 1 = t.extra + c.utf8Size := by
  have hpos := Char.utf8Size_pos c
  unfold ewsBody
  split
  · rename_i h; subst h
    have : ('\\' : Char).utf8Size = 1 := by decide
    simp [this]
  · split
    · rename_i h; have h1 := h.1; subst h1
      have : (' ' : Char).utf8Size = 1 := by decide
      simp [this]
    · simp only
      split
      · dsimp only; omega
      · split <;> (try dsimp only) <;> omega

/-- invariant of the scan: `extra` is the byte surplus of the text read so far and `start` is the byte
offset of one of its character positions -/
def EwsInv (s : EWS.St) (pre : Str) : Prop :=
  s.extra + pre.length = utf8Len pre ∧ ∃ k, k ≤ pre.length ∧ s.start = utf8Len (pre.take k)

theorem ews_pro (s : EWS.St) (pre : Str) (h : EwsInv s pre) : EwsInv (ewsPro s pre.length) pre := by
  obtain ⟨h1, k, hk, h2⟩ := h
  unfold ewsPro
  split
  · exact ⟨h1, pre.length, Nat.le_refl _, by simp; omega⟩
  · exact ⟨h1, k, hk, h2⟩

theorem ews_body (t : EWS.St) (pre : Str) (c : Char) (h : EwsInv t pre) : EwsInv (ewsBody t c) (pre ++ [c]) := by
  obtain ⟨h1, k, hk, h2⟩ := h
  have hlen : utf8Len (pre ++ [c]) = utf8Len pre + c.utf8Size := by simp [utf8Len]
  have he := ewsBody_extra t c
  refine ⟨?_, k, by simp; omega, ?_⟩
  · simp only [List.length_append, List.length_cons, List.length_nil]
    rw [hlen]; omega
  · rw [ewsBody_start, List.take_append_of_le_length hk]; exact h2

theorem ews_go (cs : Str) : ∀ (s : EWS.St) (pre : Str), EwsInv s pre → EwsInv (EWS.go s pre.length cs) (pre ++ cs) := by
  induction cs with
  | nil => intro s pre h; simpa [EWS.go] using h
  | cons c cs ih =>
    intro s pre h
    have hs : EwsInv (EWS.step s pre.length c) (pre ++ [c]) := by
      rw [ews_step_eq]; exact ews_body _ pre c (ews_pro s pre h)
    have h' := ih (EWS.step s pre.length c) (pre ++ [c]) hs
    simpa [EWS.go, List.append_assoc] using h'

theorem utf8Len_take_le (l : Str) (k : Nat) : utf8Len (l.take k) ≤ utf8Len l := by
  conv => rhs; rw [← List.take_append_drop k l]
  rw [utf8Len_append]; omega

/-- the word start is the byte offset of a character position of the line -/
theorem wordstart_boundary (line : Str) :
    ∃ k, k ≤ line.length ∧ escapedWordStart line = utf8Len (line.take k) := by
  have h0 : EwsInv {} [] := ⟨rfl, 0, Nat.le_refl _, rfl⟩
  have h := ews_go line {} [] h0
  simp only [List.nil_append, List.length_nil] at h
  obtain ⟨_, k, hk, hs⟩ := h
  unfold escapedWordStart
  simp only
  split
  · exact ⟨line.length, Nat.le_refl _, by simp⟩
  · exact ⟨k, hk, hs⟩

end Cicada.C20
