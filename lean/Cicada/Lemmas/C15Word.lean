import Cicada.Thm.C15
/-!
# Lemmas for the word-level C15 theorem (`Cicada/Thm/C15word.lean`)

* the fuel of `expandArgsTokAux` is irrelevant once it exceeds the length of the text
  (`expandArgsTok_fuel`), hence fuel-free unfolding equations `expandArgsTok_lits` (literal text is copied),
  `expandArgsTok_ref` (a reference is replaced by its value and the scan goes on BEHIND it: the value is not
  looked at again) and `expandArgsTok_noref`;
* what `argRefAt` reads for each spelling: `$N`, `${N}`, `$@`, `${@}`, and `$N}` / `$@}` (the brace is swallowed);
* the gate `isArgsInToken` is exactly "`findArgRef` finds something" (`isArgsInToken_eq_findArgRef`), so the gate is
  transparent: `expandArgsInTokens_eq_map`;
* (namespace `Cicada.C16`) the tokenizer never invents a `$`: `step_clean` (invariant of `PL.step` through all its
  branches), `parseLine_no_dollar`.

The segment type of `Spec/C15.lean` has no `${@}`; `WSeg` below adds it (`WSeg.ofSeg` embeds the old one and
commutes with rendering, value and the guard).
-/
namespace Cicada.C15
open Cicada

/-! ### segments, with `${@}` -/

inductive WSeg
  | lit (s : Str)
  | pos (digits : Str)      -- `$n`
  | bpos (digits : Str)     -- `${n}`
  | all                     -- `$@`
  | ball                    -- `${@}`
  deriving Repr, DecidableEq

def WSeg.render : WSeg → Str
  | .lit s => s
  | .pos d => '$' :: d
  | .bpos d => '$' :: '{' :: (d ++ ['}'])
  | .all => ['$', '@']
  | .ball => ['$', '{', '@', '}']

def wrender (w : List WSeg) : Str := (w.map WSeg.render).flatten

/-- what a segment stands for: the n-th argument (nothing if there is none), the arguments from the first on
joined by blanks, or the literal text itself -/
def WSeg.value (args : List Str) : WSeg → Str
  | .lit s => s
  | .pos d => argValue args d
  | .bpos d => argValue args d
  | .all => joinWith [' '] (args.drop 1)
  | .ball => joinWith [' '] (args.drop 1)

def wspecArgs (args : List Str) (w : List WSeg) : Str := (w.map (WSeg.value args)).flatten

/-- literal text: free of `$` and of newlines (may be empty) -/
def wlitOk (s : Str) : Bool := s.all (fun c => c ≠ '$' && c ≠ '\n')

/-- The guard, given the rendered text that follows the segment.  Only the unbraced spellings are restricted:
`$n` must not be followed by a digit (it would be read as part of the number) and neither `$n` nor `$@` by `}`
(the code's pattern `\}?` swallows it, see `C15_pos_swallows_brace`).  `${n}` and `${@}` may be followed by anything. -/
def wsegOk (after : Str) : WSeg → Bool
  | .lit s => wlitOk s
  | .pos d => digitsOk d && (match after.head? with
      | some c => !isDigitA c && c ≠ '}'
      | none => true)
  | .bpos d => digitsOk d
  | .all => (match after.head? with
      | some c => c ≠ '}'
      | none => true)
  | .ball => true

def wwordOk : List WSeg → Bool
  | [] => true
  | s :: rest => wsegOk (wrender rest) s && wwordOk rest

def WSeg.ofSeg : Seg → WSeg
  | .lit s => .lit s
  | .pos d => .pos d
  | .bpos d => .bpos d
  | .all => .all

theorem wrender_ofSeg (w : List Seg) : wrender (w.map WSeg.ofSeg) = render w := by
  induction w with
  | nil => rfl
  | cons s ss ih =>
    simp only [wrender, render, List.map_cons, List.flatten_cons] at ih ⊢
    rw [ih]; cases s <;> rfl

theorem wspecArgs_ofSeg (args : List Str) (w : List Seg) : wspecArgs args (w.map WSeg.ofSeg) = specArgs args w := by
  induction w with
  | nil => rfl
  | cons s ss ih =>
    simp only [wspecArgs, specArgs, List.map_cons, List.flatten_cons] at ih ⊢
    rw [ih]; cases s <;> rfl

theorem wwordOk_ofSeg (w : List Seg) (h : wordOk w = true) : wwordOk (w.map WSeg.ofSeg) = true := by
  induction w with
  | nil => rfl
  | cons s ss ih =>
    simp only [wordOk, Bool.and_eq_true] at h
    simp only [List.map_cons, wwordOk, Bool.and_eq_true, wrender_ofSeg]
    refine ⟨?_, ih h.2⟩
    have h1 := h.1
    cases s with
    | lit t =>
      simp only [segOk, litOk, Bool.and_eq_true] at h1
      simpa [WSeg.ofSeg, wsegOk, wlitOk] using h1.2
    | pos d => cases hh : (render ss).head? <;> simp_all [WSeg.ofSeg, wsegOk, segOk]
    | bpos d => simpa [WSeg.ofSeg, wsegOk, segOk] using h1
    | all => cases hh : (render ss).head? <;> simp_all [WSeg.ofSeg, wsegOk, segOk]

/-! ### lengths: the text behind a reference is shorter -/

theorem dropBrace_length (r : Str) : (dropBrace r).length ≤ r.length := by
  unfold dropBrace; split <;> simp

theorem argKey_length (s k r : Str) (h : argKey s = some (k, r)) : r.length ≤ s.length := by
  unfold argKey at h
  split at h
  · simp at h; rw [← h.2]; simp
  · simp only at h
    split at h
    · simp at h
    · simp at h
      rw [← h.2]
      have : s.length = (s.takeWhile isDigitA).length + (s.dropWhile isDigitA).length := by
        rw [← List.length_append, List.takeWhile_append_dropWhile]
      omega

theorem argRefAt_length (cs k r : Str) (h : argRefAt cs = some (k, r)) : r.length ≤ cs.length := by
  unfold argRefAt at h
  split at h
  · rename_i r0
    cases hk : argKey r0 with
    | none => simp [hk] at h
    | some p =>
      obtain ⟨k', r'⟩ := p
      simp [hk] at h
      have := argKey_length r0 k' r' hk
      have := dropBrace_length r'
      rw [← h.2]; simp; omega
  · cases hk : argKey cs with
    | none => simp [hk] at h
    | some p =>
      obtain ⟨k', r'⟩ := p
      simp [hk] at h
      have := argKey_length cs k' r' hk
      have := dropBrace_length r'
      rw [← h.2]; omega

theorem findArgRef_length (s : Str) : ∀ (acc hd k tl : Str), findArgRef acc s = some (hd, k, tl) → tl.length < s.length := by
  induction s with
  | nil => intro acc hd k tl h; simp [findArgRef] at h
  | cons c cs ih =>
    intro acc hd k tl h
    unfold findArgRef at h
    split at h
    · split at h
      · rename_i k' r' heq
        simp at h
        have := argRefAt_length cs k' r' heq
        rw [← h.2.2]; simp; omega
      · have := ih _ _ _ _ h; simp; omega
    · have := ih _ _ _ _ h; simp; omega

/-- head and tail together are shorter than the text: the reference itself takes at least two characters -/
theorem findArgRef_length2 (s : Str) : ∀ (acc hd k tl : Str), findArgRef acc s = some (hd, k, tl) →
    hd.length + tl.length < acc.length + s.length := by
  induction s with
  | nil => intro acc hd k tl h; simp [findArgRef] at h
  | cons c cs ih =>
    intro acc hd k tl h
    unfold findArgRef at h
    split at h
    · split at h
      · rename_i k' r' heq
        simp at h
        have := argRefAt_length cs k' r' heq
        rw [← h.2.2, ← h.1]; simp; omega
      · have := ih _ _ _ _ h; simp at this ⊢; omega
    · have := ih _ _ _ _ h; simp at this ⊢; omega

/-- `findArgRef` with an accumulator is `findArgRef []` with the accumulator put in front of the head -/
theorem findArgRef_acc (s : Str) : ∀ (acc : Str),
    findArgRef acc s = (findArgRef [] s).map (fun x => (acc ++ x.1, x.2.1, x.2.2)) := by
  induction s with
  | nil => intro acc; rfl
  | cons c cs ih =>
    intro acc
    by_cases hc : c = '$'
    · subst hc
      cases href : argRefAt cs with
      | some p =>
        obtain ⟨k, r⟩ := p
        simp [findArgRef, href]
      | none =>
        simp only [findArgRef, href, ↓reduceIte, List.nil_append]
        rw [ih (acc ++ ['$']), ih ['$']]
        cases findArgRef [] cs <;> simp
    · simp only [findArgRef, hc, ↓reduceIte, List.nil_append]
      rw [ih (acc ++ [c]), ih [c]]
      cases findArgRef [] cs <;> simp

/-! ### the fuel does not matter -/

theorem expandArgsTokAux_fuel (args : List Str) : ∀ (n : Nat) (s : Str) (f g : Nat), s.length ≤ n → s.length < f → s.length < g →
    expandArgsTokAux args f s = expandArgsTokAux args g s := by
  intro n
  induction n with
  | zero =>
    intro s f g hn hf hg
    have : s = [] := by cases s <;> simp_all
    subst this
    cases f <;> cases g <;> simp_all [expandArgsTokAux, findArgRef]
  | succ n ih =>
    intro s f g hn hf hg
    cases f with
    | zero => simp at hf
    | succ f =>
      cases g with
      | zero => simp at hg
      | succ g =>
        simp only [expandArgsTokAux]
        split
        · rfl
        · split
          · rfl
          · rename_i hd k tl heq
            have := findArgRef_length s [] hd k tl heq
            rw [ih tl f g (by omega) (by omega) (by omega)]

theorem expandArgsTok_fuel (args : List Str) (s : Str) (f : Nat) (hf : s.length < f) :
    expandArgsTokAux args f s = expandArgsTok args s :=
  expandArgsTokAux_fuel args s.length s f (s.length + 1) (Nat.le_refl _) hf (Nat.lt_succ_self _)

/-! ### fuel-free unfolding equations -/

theorem expandArgsTok_nil (args : List Str) : expandArgsTok args [] = [] := by
  simp [expandArgsTok, expandArgsTokAux, findArgRef]

/-- a text in which no reference is found is returned as it is -/
theorem expandArgsTok_noref (args : List Str) (t : Str) (h : findArgRef [] t = none) : expandArgsTok args t = t := by
  simp only [expandArgsTok, expandArgsTokAux, h]
  split <;> rfl

/-- a text with a newline is returned as it is (the pattern's `.` does not match a newline) -/
theorem expandArgsTok_nl (args : List Str) (t : Str) (h : noNl t = false) : expandArgsTok args t = t := by
  simp [expandArgsTok, expandArgsTokAux, h]

/-- the general step: everything up to the leftmost reference is copied, the reference is replaced by its value, and
the scan goes on behind it -/
theorem expandArgsTok_step (args : List Str) (t hd k tl : Str) (hn : noNl t = true) (h : findArgRef [] t = some (hd, k, tl)) :
    expandArgsTok args t = hd ++ argValue args k ++ expandArgsTok args tl := by
  have hlen := findArgRef_length t [] hd k tl h
  have e : expandArgsTok args t =
      hd ++ argValue args k ++ (if tl = [] then [] else expandArgsTokAux args t.length tl) := by
    simp only [expandArgsTok, expandArgsTokAux, hn, h, Bool.not_true, Bool.false_eq_true, ↓reduceIte]
  rw [e]
  by_cases htl : tl = []
  · subst htl; simp [expandArgsTok_nil]
  · simp only [htl, ↓reduceIte]
    rw [expandArgsTok_fuel args tl t.length hlen]

theorem noNl_cons (c : Char) (s : Str) : noNl (c :: s) = (decide (c ≠ '\n') && noNl s) := by
  simp [noNl]

theorem noNl_append_iff (a b : Str) : noNl (a ++ b) = (noNl a && noNl b) := by
  simp [noNl, List.all_append]

/-- **a reference at the head** is replaced by its value; the inserted value is not scanned: the scan goes on in `r`,
the text behind the reference -/
theorem expandArgsTok_ref (args : List Str) (cs k r : Str) (hn : noNl cs = true) (h : argRefAt cs = some (k, r)) :
    expandArgsTok args ('$' :: cs) = argValue args k ++ expandArgsTok args r := by
  have hf : findArgRef [] ('$' :: cs) = some ([], k, r) := by simp [findArgRef, h]
  have hn' : noNl ('$' :: cs) = true := by rw [noNl_cons, hn]; decide
  rw [expandArgsTok_step args _ _ _ _ hn' hf]; simp

/-- **literal text** (no `$`) is copied -/
theorem expandArgsTok_lits (args : List Str) (s rest : Str) (hs : ∀ c ∈ s, c ≠ '$') (hn : noNl (s ++ rest) = true) :
    expandArgsTok args (s ++ rest) = s ++ expandArgsTok args rest := by
  have hnr : noNl rest = true := by
    rw [noNl_append_iff, Bool.and_eq_true] at hn; exact hn.2
  have hskip : findArgRef [] (s ++ rest) = findArgRef s rest := by
    simpa using findArgRef_skip s rest [] hs
  cases hr : findArgRef [] rest with
  | none =>
    have : findArgRef [] (s ++ rest) = none := by rw [hskip, findArgRef_acc, hr]; rfl
    rw [expandArgsTok_noref args _ this, expandArgsTok_noref args _ hr]
  | some p =>
    obtain ⟨hd, k, tl⟩ := p
    have : findArgRef [] (s ++ rest) = some (s ++ hd, k, tl) := by rw [hskip, findArgRef_acc, hr]; rfl
    rw [expandArgsTok_step args _ _ _ _ hn this, expandArgsTok_step args _ _ _ _ hnr hr]
    simp [List.append_assoc]

/-! ### what `argRefAt` reads, per spelling -/

theorem digit_ne_brace (c : Char) (h : isDigitA c = true) : c ≠ '{' := by intro e; subst e; revert h; decide
theorem digit_ne_at (c : Char) (h : isDigitA c = true) : c ≠ '@' := by intro e; subst e; revert h; decide

theorem digitsOk_iff (d : Str) : digitsOk d = true ↔ d ≠ [] ∧ d.all isDigitA = true := by
  simp [digitsOk]

/-- `$N` followed by something that is neither a digit nor `}` -/
theorem argRefAt_pos (d post : Str) (hd : digitsOk d = true)
    (hnext : ∀ c, post.head? = some c → isDigitA c = false ∧ c ≠ '}') : argRefAt (d ++ post) = some (d, post) := by
  obtain ⟨hne, hall⟩ := (digitsOk_iff d).mp hd
  have hkey := argKey_digits d post hne hall (fun c hc => (hnext c hc).1)
  have hdb := dropBrace_id post (fun c hc => (hnext c hc).2)
  unfold argRefAt
  split
  · rename_i r heq
    cases d with
    | nil => exact absurd rfl hne
    | cons c cs =>
      simp at heq; simp at hall
      exact absurd heq.1 (digit_ne_brace c hall.1)
  · simp [hkey, hdb]

/-- `$N}`: the closing brace is swallowed although there was no opening one -/
theorem argRefAt_pos_brace (d post : Str) (hd : digitsOk d = true) : argRefAt (d ++ '}' :: post) = some (d, post) := by
  obtain ⟨hne, hall⟩ := (digitsOk_iff d).mp hd
  have hkey := argKey_digits d ('}' :: post) hne hall (by intro c hc; simp at hc; subst hc; decide)
  unfold argRefAt
  split
  · rename_i r heq
    cases d with
    | nil => exact absurd rfl hne
    | cons c cs =>
      simp at heq; simp at hall
      exact absurd heq.1 (digit_ne_brace c hall.1)
  · simp [hkey, dropBrace]

/-- `${N}` followed by anything -/
theorem argRefAt_bpos (d post : Str) (hd : digitsOk d = true) : argRefAt ('{' :: (d ++ '}' :: post)) = some (d, post) := by
  obtain ⟨hne, hall⟩ := (digitsOk_iff d).mp hd
  have hkey := argKey_digits d ('}' :: post) hne hall (by intro c hc; simp at hc; subst hc; decide)
  simp [argRefAt, hkey, dropBrace]

/-- `$@` followed by something that is not `}` -/
theorem argRefAt_all (post : Str) (hnext : ∀ c, post.head? = some c → c ≠ '}') : argRefAt ('@' :: post) = some (['@'], post) := by
  simp [argRefAt, argKey, dropBrace_id post hnext]

/-- `$@}`: the closing brace is swallowed -/
theorem argRefAt_all_brace (post : Str) : argRefAt ('@' :: '}' :: post) = some (['@'], post) := by
  simp [argRefAt, argKey, dropBrace]

/-- `${@}` followed by anything -/
theorem argRefAt_ball (post : Str) : argRefAt ('{' :: '@' :: '}' :: post) = some (['@'], post) := by
  simp [argRefAt, argKey, dropBrace]

/-! ### the gate `is_args_in_token` is exactly "a reference is found" -/

theorem argKey_nil : argKey [] = none := by simp [argKey]

theorem argKey_isSome_cons (c : Char) (cs : Str) : (argKey (c :: cs)).isSome = isArgKeyChar c := by
  by_cases hc : c = '@'
  · subst hc; simp [argKey, isArgKeyChar]
  · by_cases hd : isDigitA c = true
    · unfold argKey
      split
      · rename_i r heq; simp at heq; exact absurd heq.1 hc
      · simp [List.takeWhile, hd, isArgKeyChar]
    · unfold argKey
      split
      · rename_i r heq; simp at heq; exact absurd heq.1 hc
      · simp [List.takeWhile, hd, isArgKeyChar, hc]

theorem argRefAt_nil : argRefAt [] = none := by simp [argRefAt, argKey]
theorem argRefAt_brace_nil : argRefAt ['{'] = none := by simp [argRefAt, argKey]
theorem argRefAt_isSome_brace (x : Char) (ds : Str) : (argRefAt ('{' :: x :: ds)).isSome = isArgKeyChar x := by
  simp only [argRefAt, Option.isSome_map, argKey_isSome_cons]
theorem argRefAt_isSome_other (d : Char) (ds : Str) (hd : d ≠ '{') : (argRefAt (d :: ds)).isSome = isArgKeyChar d := by
  have : argRefAt (d :: ds) = (argKey (d :: ds)).map (fun (k, r') => (k, dropBrace r')) := by
    unfold argRefAt
    split
    · rename_i r heq; simp at heq; exact absurd heq.1 hd
    · rfl
  rw [this, Option.isSome_map, argKey_isSome_cons]

/-- the gate's test right behind a `$` -/
def gateHead : Str → Bool
  | [] => false
  | ['{'] => false
  | '{' :: x :: _ => isArgKeyChar x
  | d :: _ => isArgKeyChar d

theorem gateHead_eq (cs : Str) : (argRefAt cs).isSome = gateHead cs := by
  match cs with
  | [] => simp [argRefAt_nil, gateHead]
  | [d] =>
    by_cases hd : d = '{'
    · subst hd; simp [argRefAt_brace_nil, gateHead]
    · rw [argRefAt_isSome_other d [] hd]; unfold gateHead; split <;> simp_all
  | d :: x :: ds =>
    by_cases hd : d = '{'
    · subst hd; rw [argRefAt_isSome_brace]; rfl
    · rw [argRefAt_isSome_other d _ hd]; unfold gateHead; split <;> simp_all

theorem isArgsInToken_cons (c : Char) (cs : Str) :
    isArgsInToken (c :: cs) = ((c = '$' && gateHead cs) || isArgsInToken cs) := by
  have h0 : isArgKeyChar '{' = false := by decide
  match cs with
  | [] => simp [isArgsInToken, gateHead]
  | [d] =>
    by_cases hd : d = '{'
    · subst hd; simp [isArgsInToken, gateHead, h0]
    · have : gateHead [d] = isArgKeyChar d := by unfold gateHead; split <;> simp_all
      simp [isArgsInToken, this, hd]
  | d :: x :: ds =>
    by_cases hd : d = '{'
    · subst hd
      have : gateHead ('{' :: x :: ds) = isArgKeyChar x := rfl
      rw [this]; simp [isArgsInToken, h0]
    · have : gateHead (d :: x :: ds) = isArgKeyChar d := by unfold gateHead; split <;> simp_all
      rw [this]; simp [isArgsInToken, hd]

theorem isArgsInToken_eq_findArgRef (t : Str) : ∀ acc, isArgsInToken t = (findArgRef acc t).isSome := by
  induction t with
  | nil => intro acc; rfl
  | cons c cs ih =>
    intro acc
    rw [isArgsInToken_cons, ← gateHead_eq]
    by_cases hc : c = '$'
    · subst hc
      cases href : argRefAt cs with
      | some p =>
        obtain ⟨k, r⟩ := p
        simp [findArgRef, href]
      | none =>
        simp only [findArgRef, ↓reduceIte, href, decide_true, Option.isSome_none, Bool.and_false, Bool.false_or]
        exact ih _
    · simp only [findArgRef, hc, ↓reduceIte, decide_false, Bool.false_and, Bool.false_or]
      exact ih _

/-- below the gate there is nothing to expand -/
theorem expandArgsTok_gate_false (args : List Str) (t : Str) (h : isArgsInToken t = false) : expandArgsTok args t = t := by
  apply expandArgsTok_noref
  have := isArgsInToken_eq_findArgRef t []
  rw [h] at this
  cases hf : findArgRef [] t with
  | none => rfl
  | some p => rw [hf] at this; simp at this

/-- **the gate is transparent**: the token pass expands every token that is not single- or back-quoted -/
theorem expandArgsInTokens_eq_map (args : List Str) (ts : List Tok) :
    expandArgsInTokens args ts =
      ts.map (fun tok => if tok.1 = ['`'] ∨ tok.1 = ['\''] then tok else (tok.1, expandArgsTok args tok.2)) := by
  unfold expandArgsInTokens
  apply List.map_congr_left
  intro tok _
  obtain ⟨sep, text⟩ := tok
  by_cases h1 : sep = ['`']
  · simp [h1]
  · by_cases h2 : sep = ['\'']
    · simp [h2]
    · cases hg : isArgsInToken text with
      | true => simp [h1, h2, hg]
      | false => simp [h1, h2, hg, expandArgsTok_gate_false args text hg]

end Cicada.C15

/-! ### the tokenizer never invents a `$` (used for the line-level form of C16) -/
namespace Cicada.C16
open Cicada

def nd (t : Str) : Bool := t.all (· ≠ '$')
def ndToks (r : List Tok) : Bool := r.all (fun t => nd t.2)
def Clean (s : PL.St) : Prop := ndToks s.result = true ∧ nd s.token = true

theorem nd_append (a b : Str) : nd (a ++ b) = (nd a && nd b) := by simp [nd]
theorem ndToks_append (a b : List Tok) : ndToks (a ++ b) = (ndToks a && ndToks b) := by simp [ndToks]
theorem ndToks_single (sp t : Str) : ndToks [(sp, t)] = nd t := by simp [ndToks]
theorem nd_nil : nd [] = true := rfl
theorem nd_single (c : Char) (h : c ≠ '$') : nd [c] = true := by simp [nd, h]

theorem pushTok_clean (s : PL.St) (sp : Str) (h : Clean s) : Clean (PL.pushTok s sp) := by
  obtain ⟨hr, ht⟩ := h
  unfold PL.pushTok Clean
  split <;> simp [ndToks_append, ndToks_single, hr, ht]

theorem resetTok_clean (s : PL.St) (h : Clean s) : Clean (PL.resetTok s) := by
  obtain ⟨hr, ht⟩ := h
  unfold PL.resetTok Clean
  simp [hr, nd_nil]

/-- appending a clean character to the token -/
theorem clean_push (s s' : PL.St) (c : Char) (hc : c ≠ '$') (h : Clean s) (h1 : s'.result = s.result) (h2 : s'.token = s.token ++ [c]) :
    Clean s' := by
  obtain ⟨hr, ht⟩ := h
  exact ⟨by rw [h1]; exact hr, by rw [h2, nd_append, ht, nd_single c hc]; rfl⟩

theorem clean_same (s s' : PL.St) (h : Clean s) (h1 : s'.result = s.result) (h2 : s'.token = s.token) : Clean s' := by
  obtain ⟨hr, ht⟩ := h
  exact ⟨by rw [h1]; exact hr, by rw [h2]; exact ht⟩

theorem stepTail_clean (s : PL.St) (c : Char) (hc : c ≠ '$') (h : Clean s) : Clean (PL.stepTail s c) := by
  have hp := fun s (h : Clean s) sp => pushTok_clean s sp h
  have hrp := fun s (h : Clean s) sp => resetTok_clean _ (hp s h sp)
  have hc1 := nd_single c hc
  unfold PL.stepTail
  split
  · repeat' split
    all_goals first
      | exact clean_same _ _ (hrp s h _) rfl rfl
      | exact clean_push s _ c hc h rfl rfl
      | (obtain ⟨hr, ht⟩ := h; simp [Clean, ndToks_append, ndToks_single, hr, ht, nd_nil]; done)
      | (have := hp s h []; obtain ⟨hr, ht⟩ := this; simp [Clean, hr, nd_nil]; done)
  · split
    · extract_lets s0 s1 s2
      have hs1 : Clean s1 := by
        unfold s1; split
        · exact clean_same _ _ (hrp s h _) rfl rfl
        · exact h
      have hs2 : Clean s2 := clean_push s1 _ c hc hs1 rfl rfl
      repeat' split
      all_goals first
        | exact clean_push s1 _ c hc hs1 rfl rfl
        | exact clean_same s1 _ hs1 rfl rfl
        | exact clean_same s2 _ hs2 rfl rfl
        | exact hs2
    · exact clean_push s _ c hc h rfl rfl

theorem clean_of (s s' : PL.St) (r : List Tok) (t : Str) (h : Clean s) (hr : ndToks r = true) (ht : nd t = true)
    (h1 : s'.result = s.result ++ r) (h2 : s'.token = t) : Clean s' :=
  ⟨by rw [h1, ndToks_append, h.1, hr]; rfl, by rw [h2]; exact ht⟩

theorem stepMid_clean (s : PL.St) (c : Char) (hc : c ≠ '$') (h : Clean s) : Clean (PL.stepMid s c) := by
  have ht := stepTail_clean s c hc h
  have hp := fun sp => pushTok_clean s sp h
  unfold PL.stepMid
  repeat' split
  all_goals first
    | exact ht
    | (extract_lets s1 s2
       have h1 : Clean s1 := hp _
       have h2 : Clean s2 := resetTok_clean _ (clean_of s1 _ [([], ['|'])] s1.token h1 (by decide) h1.2 rfl rfl)
       exact clean_same s2 _ h2 rfl rfl)
    | (extract_lets s1
       have h1 : Clean s1 := hp _
       exact resetTok_clean _ (clean_of s1 _ [([], ['|'])] s1.token h1 (by decide) h1.2 rfl rfl))

theorem step_clean (s : PL.St) (c : Char) (n : Option Char) (hc : c ≠ '$') (h : Clean s) : Clean (PL.step s c n) := by
  have hc1 := nd_single c hc
  unfold PL.step
  extract_lets s1 s2 s3 s4
  have h1 : Clean s1 := by unfold s1; split; exact clean_same s _ h rfl rfl; exact h
  have h2 : Clean s2 := by unfold s2; split; exact clean_same s1 _ h1 rfl rfl; exact h1
  have h3 : Clean s3 := by unfold s3; split; exact clean_same s2 _ h2 rfl rfl; exact h2
  have h4 : Clean s4 := clean_same s3 _ h3 rfl rfl
  have hm := stepMid_clean s3 c hc h3
  have hbs : nd (s.token ++ ['\\', c]) = true := by rw [nd_append, h.2]; simp [nd, hc]
  by_cases c1 : s.stop = true
  · rw [if_pos c1]; exact h
  rw [if_neg c1]
  by_cases c2 : s.skipNext = true
  · rw [if_pos c2]; exact clean_same s _ h rfl rfl
  rw [if_neg c2]
  by_cases c3 : s.bs = true ∧ s.sep = [] ∧ (c = '>' ∨ c = '<')
  · rw [if_pos c3]; exact clean_push s _ c hc h rfl rfl
  rw [if_neg c3]
  by_cases c4 : s.bs = true ∧ s.sep = ['"'] ∧ c ≠ '"'
  · rw [if_pos c4]; exact ⟨h.1, hbs⟩
  rw [if_neg c4]
  by_cases c5 : s.bs = true
  · rw [if_pos c5]
    split
    · exact ⟨h.1, hc1⟩
    · exact clean_push s _ c hc h rfl rfl
  rw [if_neg c5]
  by_cases c6 : c = '(' ∧ s1.sep = [] ∧ (!s1.hasDollar) = true ∧ s1.token = []
  · rw [if_pos c6]; exact clean_same s1 _ h1 rfl rfl
  rw [if_neg c6]
  by_cases c7 : c = ')' ∧ s2.parensLeftIgnored = true ∧ (!s2.hasDollar) = true ∧ (n = none ∨ n = some ' ')
  · rw [if_pos c7]; exact h2
  rw [if_neg c7]
  by_cases c8 : c = '\\'
  · rw [if_pos c8]
    split
    · exact clean_push s3 _ c hc h3 rfl rfl
    · exact clean_same s3 _ h3 rfl rfl
  rw [if_neg c8]
  by_cases c9 : s3.newRound = true
  · rw [if_pos c9]
    repeat' split
    all_goals first
      | exact h3
      | exact clean_same s3 _ h3 rfl rfl
      | exact clean_same s4 _ h4 rfl rfl
      | exact clean_push s4 _ c hc h4 rfl rfl
      | exact ⟨by show ndToks (s4.result ++ _) = true; rw [ndToks_append, h4.1]; rfl, h4.2⟩
  · rw [if_neg c9]; exact hm

theorem go_clean (l : Str) : ∀ (s : PL.St), Clean s → (∀ c ∈ l, c ≠ '$') → Clean (PL.go s l) := by
  induction l with
  | nil => intro s h _; exact h
  | cons c cs ih =>
    intro s h hl
    exact ih _ (step_clean s c cs.head? (hl c (by simp)) h) (fun x hx => hl x (by simp [hx]))

theorem finish_clean (s : PL.St) (h : Clean s) : ndToks (PL.finish s) = true := by
  unfold PL.finish
  repeat' split
  all_goals first
    | exact h.1
    | (rw [ndToks_append, ndToks_single, h.1, h.2]; rfl)

theorem splitOnChar_mem (d : Char) (l : Str) : ∀ p ∈ splitOnChar d l, ∀ x ∈ p, x ∈ l := by
  induction l with
  | nil => intro p hp x hx; simp [splitOnChar] at hp; subst hp; simp at hx
  | cons c cs ih =>
    intro p hp x hx
    unfold splitOnChar at hp
    split at hp
    · simp at hp; subst hp; simp at hx
    · rename_i q qs heq
      rw [heq] at ih
      split at hp
      · simp only [List.mem_cons] at hp
        rcases hp with rfl | rfl | hp
        · simp at hx
        · exact List.mem_cons_of_mem _ (ih p (by simp) x hx)
        · exact List.mem_cons_of_mem _ (ih p (by simp [hp]) x hx)
      · simp only [List.mem_cons] at hp
        rcases hp with rfl | hp
        · simp only [List.mem_cons] at hx
          rcases hx with rfl | hx
          · simp
          · exact List.mem_cons_of_mem _ (ih q (by simp) x hx)
        · exact List.mem_cons_of_mem _ (ih p (by simp [hp]) x hx)

/-- **the tokenizer never invents a `$`**: the tokens of a line free of `$` are free of `$` -/
theorem parseLine_no_dollar (line : Str) (h : ∀ c ∈ line, c ≠ '$') : ∀ tok ∈ parseLine line, ∀ x ∈ tok.2, x ≠ '$' := by
  unfold parseLine parseLineInfo
  split
  · intro tok htok x hx
    simp only [List.mem_map] at htok
    obtain ⟨p, hp, rfl⟩ := htok
    exact h x (splitOnChar_mem ' ' line p hp x hx)
  · intro tok htok x hx
    have hc : Clean ({} : PL.St) := ⟨rfl, rfl⟩
    have := finish_clean _ (go_clean line _ hc h)
    simp only [ndToks, nd, List.all_eq_true, decide_eq_true_eq] at this
    exact this tok htok x hx

end Cicada.C16
