import Cicada.Model.Subst
/-!
# C01 — quoted and escaped arguments reach the program verbatim: reference semantics

A command is a plain program word followed by arguments, each written in one of three styles.
`expectedArgv` is what the program must receive: exactly the argument strings, in order.
-/
namespace Cicada.C01

inductive Style | sq | dq | esc
  deriving DecidableEq, Repr

/-- characters the escaped style puts a backslash in front of: every shell-special character, blank and tab -/
def isSpecial (c : Char) : Bool :=
  "|&;<>()$`\\\"'*?[]{},~#!=%^ \t".toList.contains c

def renderArg : Style → Str → Str
  | .sq, a => ['\''] ++ a ++ ['\'']
  | .dq, a => ['"'] ++ a ++ ['"']
  | .esc, a => a.flatMap (fun c => if isSpecial c then ['\\', c] else [c])

/-- which argument texts each style can express (the property's side conditions) -/
def okArg : Style → Str → Bool
  | .sq, a => !a.contains '\''
  | .dq, a => a.all (fun c => c ≠ '$' && c ≠ '`' && c ≠ '\\' && c ≠ '"')
  | .esc, a => !a.isEmpty

inductive Ctx | alone | pipe | semi | and | or
  deriving DecidableEq, Repr

def Ctx.suffix : Ctx → Str
  | .alone => []
  | .pipe => " | q".toList
  | .semi => " ; q".toList
  | .and => " && q".toList
  | .or => " || q".toList

def renderCmd (p : Str) (args : List (Style × Str)) : Str :=
  p ++ (args.map (fun (s, a) => ' ' :: renderArg s a)).flatten

def renderLine (p : Str) (args : List (Style × Str)) (ctx : Ctx) : Str := renderCmd p args ++ ctx.suffix

/-- what the invoked program receives -/
def expectedArgv (p : Str) (args : List (Style × Str)) : List Str := p :: args.map (·.2)

/-- the observable of a plan that the property talks about: per stage the argv, the redirections and
stdin source, plus the background flag and the per-command environment -/
structure Obs where
  stages : List (List Str × List Redir × Option Tok)
  envs : List (Str × Str)
  background : Bool

def obsOfPlan (p : Plan) : Obs :=
  { stages := p.commands.map (fun c => (c.tokens.map (·.2), c.redirectsTo, c.redirectFrom)),
    envs := p.envs, background := p.background }

/-- expected observable of the first pipeline of the line (`q` is the decoy stage after a pipe) -/
def expectedObs (p : Str) (args : List (Style × Str)) (ctx : Ctx) : Obs :=
  { stages := (expectedArgv p args, [], none) :: (if ctx = .pipe then [(["q".toList], [], none)] else []),
    envs := [], background := false }

/-- the program word is a plain word: letters, digits, `_ - . /`, at least one letter, and it is not a
word the shell itself gives meaning to in first position -/
def plainWord (p : Str) : Bool :=
  p.any isAlphaA && p.all (fun c => isAlphaA c || isDigitA c || c = '_' || c = '-' || c = '.' || c = '/')

/-! ## input guard of `C01_partial` and classes of the inputs outside it -/

def styleOk : Style × Str → Bool
  | (.sq, a) => okArg .sq a
  | (.dq, a) => okArg .dq a
  | (.esc, _) => false

/-- guard: a plain program word that is not an alias name and not `xargs`; every argument single- or
double-quoted within what the style can express -/
def guard (e : Env) (p : Str) (args : List (Style × Str)) : Bool :=
  plainWord p && (lookup e.aliases p).isNone && p ≠ "xargs".toList && args.all styleOk

def onlyLtGt (a : Str) : Bool := !a.isEmpty && a.all (fun c => c = '<' || c = '>')

/-- finding class of an input outside the guard, named after what the code does with it.
Escaped style: the tokenizer drops the backslash and emits an *unquoted* token, so every later pass
still acts on the character. -/
def classify (e : Env) (p : Str) (args : List (Style × Str)) (ctx : Ctx) : String :=
  if guard e p args then "-" else
  if !plainWord p ∨ (lookup e.aliases p).isSome ∨ p = "xargs".toList then "outside-statement:program-word" else
  if args.any (fun x => match x with
      | (.esc, a) => a.isEmpty
      | (s, a) => !okArg s a) then "outside-statement:style-cannot-express-argument" else
  let escs := (args.filter (fun x => x.1 = .esc)).map (·.2)
  let lastEsc : Option Str := match args.getLast? with
    | some (.esc, a) => some a
    | _ => none
  if escs.any (fun a => a.any (· = '`')) then "esc-backquote"
  else if escs.any (fun a => a.any (· = '$')) then "esc-dollar"
  else if escs.any (fun a => a.head? = some '~') then "esc-tilde"
  else if escs.any (fun a => a.any (· = '{')) then "esc-brace"
  else if escs.any (fun a => a.any (· = '*')) then "esc-glob"
  else if lastEsc = some ['&'] then "esc-amp"
  else if (args.dropLast.any (fun x => x.1 = .esc && onlyLtGt x.2)) ||
          (ctx = .pipe && (match lastEsc with
            | some a => onlyLtGt a
            | none => false)) then "esc-ltgt-alone"
  else if ctx ≠ .pipe && (match lastEsc with
      | some a => (match a.getLast? with
        | some c => isWs c
        | none => false)
      | none => false) then "esc-trailing-blank"
  else "esc-other"

end Cicada.C01
