import Cicada.Model.Alias
/-!
# C17 — aliases replace exactly the command word, once: reference semantics

A token list is a sequence of pipeline stages.  In every stage, if the first word names an alias (with a
non-empty value) it is replaced by the words of the value; nothing else changes and the result is not
scanned again.
-/
namespace Cicada.C17
open Cicada

def pipeTok : Tok := ([], ['|'])

/-- replace the command word of one stage -/
def specStage (A : List (Str × Str)) : List Tok → List Tok
  | [] => []
  | (sep, w) :: rest =>
    match lookup A w with
    | some v => if v = [] then (sep, w) :: rest else parseLine v ++ rest
    | none => (sep, w) :: rest

def specAlias (A : List (Str × Str)) : List (List Tok) → List Tok
  | [] => []
  | [s] => specStage A s
  | s :: more => specStage A s ++ pipeTok :: specAlias A more

def joinStages : List (List Tok) → List Tok
  | [] => []
  | [s] => s
  | s :: more => s ++ pipeTok :: joinStages more

/-- a stage holds no unquoted `|` and does not start with `xargs` (the code treats the word after `xargs`
as a command word too — known finding KF-C17-xargs) -/
def stageOk (s : List Tok) : Bool :=
  s.all (fun t => !(t.1 = [] && t.2 = ['|'])) && (match s with
    | (_, w) :: _ => w ≠ "xargs".toList
    | [] => true)

def guard (stages : List (List Tok)) : Bool := stages.all stageOk

end Cicada.C17
