import Cicada.Model.Jobs
/-!
# C06 — the job table tracks exactly the live jobs: reference semantics

The world: every launched process is running, stopped or gone.  A job is live while one of its
processes is; it is Stopped precisely when all its live processes are stopped.
-/
namespace Cicada.C06
open Cicada.Jobs

inductive PState | running | stopped | gone
  deriving DecidableEq, Repr

structure WJob where
  gid : Pid
  procs : List (Pid × PState)
  deriving Repr

def WJob.live (j : WJob) : List Pid := (j.procs.filter (fun p => p.2 ≠ .gone)).map (·.1)

def applyEv (w : List WJob) (e : Ev) : List WJob :=
  w.map fun j => { j with procs := j.procs.map fun (p, st) =>
    if p = e.pid ∧ st ≠ .gone then
      (p, match e with
        | .exited _ _ => .gone
        | .killed _ _ => .gone
        | .stopped _ _ => .stopped
        | .continued _ => .running)
    else (p, st) }

def worldStep (w : List WJob) : Op → List WJob
  | .launch _ gid pids =>
    let w := w.filter (fun j => j.live ≠ [])
    if w.any (·.gid = gid) then
      w.map fun j => if j.gid = gid then { j with procs := j.procs ++ pids.map (fun p => (p, PState.running)) } else j
    else w ++ [{ gid := gid, procs := pids.map (fun p => (p, PState.running)) }]
  | .ev e => applyEv w e
  | .waitFg _ _ => w
  | .poll => w

/-- (gid, live pids, Stopped?) of the live jobs, in launch order -/
def specView (w : List WJob) : List (Pid × List Pid × Bool) :=
  (w.filter (fun j => j.live ≠ [])).map fun j =>
    (j.gid, j.live, (j.procs.filter (fun p => p.2 ≠ .gone)).all (fun p => p.2 = .stopped))

def modelView (s : Sh) : List (Pid × List Pid × Bool) :=
  s.jobs.map fun j => (j.gid, j.pids, j.status = "Stopped")

end Cicada.C06
