import Cicada.Model.Calc
/-!
# C19 — reference evaluator for integer arithmetic lines

Expression trees with standard meaning: exact integer arithmetic reduced to the 64-bit two's-complement
range, division truncating toward zero.
-/
namespace Cicada.C19
open Cicada Cicada.Calc

inductive T | num (z : Int) | bin (o : Op) (l r : T)
  deriving Repr

/-- `none` = the statement does not fix a value (negative or huge exponent, literal outside 64 bits) -/
def specEval : T → Option Int
  | .num z => if i64Min ≤ z ∧ z ≤ i64Max then some z else none   -- an out-of-range literal has no prescribed value
  | .bin o l r =>
    match specEval l, specEval r with
    | some a, some b =>
      (match o with
       | .add => some (wrap64 (a + b))
       | .sub => some (wrap64 (a - b))
       | .mul => some (wrap64 (a * b))
       | .div => if b = 0 then some (if a > 0 then i64Max else if a < 0 then i64Min else 0) else some (wrap64 (Int.tdiv a b))
       | .pow => if 0 ≤ b ∧ b ≤ 128 then some (wrap64 (a ^ b.toNat)) else none)
    | _, _ => none

/-- prefix notation on the wire: `+ 1 * 2 3` -/
def parseT : Nat → List String → Option (T × List String)
  | 0, _ => none
  | _ + 1, [] => none
  | f + 1, tok :: rest =>
    match tok.toInt? with
    | some z => some (.num z, rest)
    | none =>
      let op : Option Op := match tok with
        | "+" => some .add | "-" => some .sub | "*" => some .mul | "/" => some .div | "^" => some .pow | _ => none
      match op with
      | none => none
      | some o =>
        match parseT f rest with
        | none => none
        | some (l, r1) =>
          match parseT f r1 with
          | none => none
          | some (r, r2) => some (.bin o l r, r2)

end Cicada.C19
