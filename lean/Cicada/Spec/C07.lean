import Cicada.Model.Term
/-!
# C07 — the terminal belongs to the foreground job while it runs, else to the shell: reference semantics

Two parts.

1. The clauses of the property as predicates on a state of the small-step system of `Model/Term.lean`
   (who owns the terminal at the prompt and during a foreground wait, a background job never does, one
   process group per pipeline, a finished background job is reported once).
2. What an interactive session *should* show, as a small world of pipelines whose processes are running,
   stopped or gone (`World`, `specStep`): the shell waits for the foreground pipeline until every member is
   stopped or gone, signals from the terminal and from `fg` / `bg` reach every member, `jobs` lists exactly
   the pipelines with a live member in their true state, a finished background pipeline is reported at the
   next prompt and never again.  It knows nothing of parked maps, counters or the order of notifications.
-/
namespace Cicada.C07
open Cicada.Jobs Cicada.Term

/-! ### clauses over the small-step system -/

/-- the process group the shell has handed the terminal to, according to where its control is -/
def fgGid : Mode → Option Pid
  | .launching l => if l.termGiven then some l.pgid else none
  | .waiting w => (match w.origin with
      | .launch tg => if tg then some w.gid else none
      | .fgBuiltin => some w.gid)
  | .handback g o => (match o with
      | .launch tg => if tg then some g else none
      | .fgBuiltin => some g)
  | _ => none

/-- whenever the prompt is shown the terminal's foreground group is the shell's -/
def PromptOwns (s : State) : Prop := s.mode = .prompt → s.tfg = s.shell

/-- while the shell waits for a foreground job, that job's group owns the terminal -/
def FgOwns (s : State) : Prop := ∀ w, s.mode = .waiting w → s.tfg = w.gid

/-- a job of the table that is not the one the shell is running in the foreground never owns the terminal -/
def BgNeverOwns (s : State) : Prop := ∀ j ∈ s.sh.jobs, fgGid s.mode ≠ some j.gid → s.tfg ≠ j.gid

/-- the parent's `setpgid` for child `pid` is still to come (the window between `fork` and that call) -/
def inSetpgidWindow (s : State) (pid : Pid) : Bool :=
  match s.mode with
  | .launching l => l.phase = .pset pid
  | _ => false

/-- every stage of every pipeline is in the group led by the pipeline's first stage, from the parent's `setpgid` on -/
def OneGroup (s : State) : Prop := ∀ p ∈ s.procs, inSetpgidWindow s p.pid = false → p.pgid = p.first

instance (s : State) : Decidable (OneGroup s) := by unfold OneGroup; infer_instance

/-- when `wait_fg_job` has returned, no process of the pipeline it waited for is still running -/
def WaitComplete (s : State) : Prop :=
  match s.mode with
  | .handback g _ => ∀ p ∈ s.procs, p.first = g → p.st ≠ .running
  | _ => True

instance (s : State) : Decidable (WaitComplete s) := by unfold WaitComplete; split <;> infer_instance

/-- no job incarnation (id, group id) is announced as finished twice, and an announced one is gone from the table
(a later job may reuse the id, never the group id) -/
def ReportedOnce (s : State) : Prop := (finKeys s.out).Nodup ∧ ∀ k ∈ finKeys s.out, k ∉ keys s.sh

/-! ### the reference world of a session -/

inductive WSt | running | stopped | gone
  deriving DecidableEq, Repr

structure WProc where
  idx : Nat
  st : WSt := .running
  pendInt : Bool := false
  deriving Repr, DecidableEq

/-- default dispositions, as `Term.sigProc` -/
def wsig (p : WProc) (sg : Sig) : WProc :=
  match p.st with
  | .running =>
    (match sg with
     | .int => { p with st := .gone }
     | .kill => { p with st := .gone }
     | .tstp => { p with st := .stopped }
     | .stop => { p with st := .stopped }
     | .cont => p)
  | .stopped =>
    (match sg with
     | .kill => { p with st := .gone, pendInt := false }
     | .int => { p with pendInt := true }
     | .cont => if p.pendInt then { p with st := .gone, pendInt := false } else { p with st := .running }
     | .tstp => p
     | .stop => p)
  | .gone => p

structure WJob where
  id : Nat
  /-- number of the first stage: the pipeline's process group -/
  first : Nat
  members : List Nat
  /-- the stages that run until they are signalled -/
  long : List Nat := []
  deriving Repr, DecidableEq

structure World where
  procs : List WProc := []
  jobs : List WJob := []
  /-- id of the pipeline the shell is waiting for -/
  fg : Option Nat := none
  deriving Repr

def World.st (w : World) (i : Nat) : WSt := ((w.procs.find? (·.idx = i)).map (·.st)).getD .gone

def World.live (w : World) (j : WJob) : List Nat := j.members.filter fun i => w.st i ≠ .gone

def World.allStopped (w : World) (j : WJob) : Bool := (w.live j).all fun i => w.st i = .stopped

def World.signalJob (w : World) (j : WJob) (sg : Sig) : World :=
  { w with procs := w.procs.map fun p => if j.members.contains p.idx then wsig p sg else p }

def leastFree (ids : List Nat) : Nat :=
  ((List.range (ids.length + 2)).find? fun n => n ≥ 1 && !ids.contains n).getD (ids.length + 1)

/-- the prompt comes back: every finished pipeline is announced and forgotten -/
def endOfLine (w : World) : World × List Out :=
  let fin := w.jobs.filter fun j => (w.live j).isEmpty
  ({ w with jobs := w.jobs.filter fun j => !(w.live j).isEmpty }, fin.map fun j => Out.report j.id (pidBase + j.first) "Fin")

/-- the shell waits exactly until every member of the foreground pipeline is stopped or gone -/
def checkFg (w : World) : World × List Out :=
  match w.fg with
  | none => (w, [])
  | some id =>
    match w.jobs.find? (·.id = id) with
    | none => endOfLine { w with fg := none }
    | some j =>
      if (w.live j).isEmpty then endOfLine { w with fg := none, jobs := w.jobs.filter (·.id ≠ id) }
      else if w.allStopped j then endOfLine { w with fg := none }
      else (w, [])

def rows (w : World) : List Out :=
  w.jobs.map fun j => if w.allStopped j then Out.row j.id (pidBase + j.first) "Stopped" false else Out.row j.id (pidBase + j.first) "Running" true

def specStep (w : World) (a : SAct) : World × List Out :=
  match a with
  | .launch bg kinds =>
    let n0 := w.procs.length
    let idxs := (List.range kinds.length).map (· + n0 + 1)
    let ps := (idxs.zip kinds).map fun (i, k) => ({ idx := i, st := if k = .sleep then .running else .gone } : WProc)
    let id := leastFree (w.jobs.map (·.id))
    let j : WJob := { id := id, first := n0 + 1, members := idxs, long := ((idxs.zip kinds).filter fun (_, k) => k = .sleep).map (·.1) }
    let w1 : World := { w with procs := w.procs ++ ps, jobs := w.jobs ++ [j] }
    if bg then
      let (w2, o) := endOfLine w1
      (w2, [Out.launched id (pidBase + n0 + 1)] ++ o)
    else checkFg { w1 with fg := some id }
  | .ctrlZ =>
    (match w.fg.bind fun id => w.jobs.find? (·.id = id) with
     | some j => checkFg (w.signalJob j .tstp)
     | none => (w, []))
  | .ctrlC =>
    (match w.fg.bind fun id => w.jobs.find? (·.id = id) with
     | some j => checkFg (w.signalJob j .int)
     | none => (w, []))
  | .fg n =>
    let n := n.getD ((w.jobs.head?.map (·.id)).getD 0)
    (match w.jobs.find? (·.id = n) with
     | some j => checkFg { w.signalJob j .cont with fg := some n }
     | none => endOfLine w)
  | .bg n =>
    let n := n.getD ((w.jobs.head?.map (·.id)).getD 0)
    (match w.jobs.find? (·.id = n) with
     | some j => endOfLine (w.signalJob j .cont)
     | none => endOfLine w)
  | .kill i => checkFg { w with procs := w.procs.map fun p => if p.idx = i then wsig p .kill else p }
  | .stop i => checkFg { w with procs := w.procs.map fun p => if p.idx = i then wsig p .stop else p }
  | .cont i => checkFg { w with procs := w.procs.map fun p => if p.idx = i then wsig p .cont else p }
  | .jobs =>
    let (w1, o) := endOfLine w
    (w1, o ++ rows w1)
  | .empty => endOfLine w

/-- the observation the reference world prescribes, in the vocabulary of `Term.Obs` -/
def specObs (w : World) (outs : List Out) : Obs :=
  { atPrompt := w.fg.isNone,
    tfg := (match w.fg.bind fun id => w.jobs.find? (·.id = id) with
      | some j => pidBase + j.first
      | none => shellPid),
    procs := w.procs.map fun p => (pidBase + p.idx, (match p.st with
      | .running => PSt.running
      | .stopped => PSt.stopped
      | .gone => PSt.reaped), true),
    outs := outs }

/-! ### input-level classes of the known findings

Evaluated on the reference world only (never on the model's output): what was done to which process while
the shell was in which situation. -/

structure Flags where
  /-- a stop or continue was sent to one member of a pipeline that has another long-running stage -/
  memberAlone : Bool := false
  /-- a member of the awaited pipeline was stopped and later killed, or stopped twice, within one wait -/
  countedTwice : Bool := false
  /-- a process outside the awaited pipeline was stopped and continued (or continued and stopped) with no prompt in
  between, the second time while the shell was waiting (so that the first change had been parked) -/
  parkedPair : Bool := false
  /-- a member of the awaited pipeline was continued from outside -/
  fgContinued : Bool := false
  /-- members of the awaited pipeline stopped since the current wait began -/
  stoppedInWait : List Nat := []
  /-- processes stopped / continued from outside since the last end of a line -/
  stopSincePoll : List Nat := []
  contSincePoll : List Nat := []
  deriving Repr

def jobOf (w : World) (i : Nat) : Option WJob := w.jobs.find? fun j => j.members.contains i

def isLine : SAct → Bool
  | .launch _ _ => true
  | .fg _ => true
  | .bg _ => true
  | .jobs => true
  | .empty => true
  | _ => false

def flagStep (w w' : World) (f : Flags) (a : SAct) : Flags :=
  let waiting := w.fg.isSome
  let fgMembers : List Nat := match w.fg.bind fun id => w.jobs.find? (·.id = id) with
    | some j => j.members
    | none => []
  let others := fun (i : Nat) => match jobOf w i with
    | some j => (j.long.filter (· ≠ i)).length > 0
    | none => false
  let f := match a with
    | .stop i =>
      if w.st i ≠ .running then f else
      let f := if others i then { f with memberAlone := true } else f
      let f := if waiting && fgMembers.contains i && f.stoppedInWait.contains i then { f with countedTwice := true } else f
      let f := if waiting && !fgMembers.contains i && f.contSincePoll.contains i then { f with parkedPair := true } else f
      let f := if waiting && fgMembers.contains i then { f with stoppedInWait := f.stoppedInWait ++ [i] } else f
      { f with stopSincePoll := f.stopSincePoll ++ [i] }
    | .cont i =>
      if w.st i ≠ .stopped then f else
      let f := if others i then { f with memberAlone := true } else f
      let f := if waiting && fgMembers.contains i then { f with fgContinued := true } else f
      let f := if waiting && !fgMembers.contains i && f.stopSincePoll.contains i then { f with parkedPair := true } else f
      { f with contSincePoll := f.contSincePoll ++ [i] }
    | .kill i =>
      if w.st i = .gone then f else
      if waiting && fgMembers.contains i && f.stoppedInWait.contains i && others i then { f with countedTwice := true } else f
    | _ => f
  -- the prompt is back after a line or after a wait: the poll has run
  let f := if w'.fg.isNone && (isLine a || waiting) then { f with stopSincePoll := [], contSincePoll := [] } else f
  if w'.fg.isNone then { f with stoppedInWait := [] } else f

def flagsOf (acts : List SAct) : Flags :=
  (acts.foldl (fun (acc : World × Flags) a =>
    let w' := (specStep acc.1 a).1
    (w', flagStep acc.1 w' acc.2 a)) ({}, {})).2

def classOf (f : Flags) : String :=
  if f.countedTwice then "wait-counts-member-twice"
  else if f.fgContinued then "foreground-member-continued"
  else if f.parkedPair then "stop-cont-parked-together"
  else if f.memberAlone then "member-signalled-alone"
  else "-"

/-- the domain on which the session-level statement is claimed: no finding class applies -/
def guard (acts : List SAct) : Bool := classOf (flagsOf acts) = "-"

/-! ### what a session shows, model against reference world -/

/-- the session through the model along the canonical schedule (children's status changes reach a waiting
shell in creation order); command texts play no role here -/
def modelSession (c : Cfg) (acts : List SAct) : Option (List Obs) :=
  (acts.foldl (fun (acc : Option (State × List Obs)) a =>
    acc.bind fun (s, obs) => (runMacro c (fun _ _ => "") [] s a).map fun s' => (s', obs ++ [observe s s']))
    (some (init shellPid, []))).map (·.2)

def specSession (acts : List SAct) : List Obs :=
  (acts.foldl (fun (acc : World × List Obs) a =>
    let (w', outs) := specStep acc.1 a
    (w', acc.2 ++ [specObs w' outs])) ({}, [])).2

/-- announcements of `Stopped` and diagnostics are not prescribed; the wording of a final announcement is not either -/
def cleanOuts (outs : List Out) : List Out :=
  outs.filterMap fun o => match o with
    | .report i g w => if w = "Stopped" then none else some (.report i g "Fin")
    | .msg _ => none
    | o => some o

def goneLike : PSt → Bool
  | .zombie => true
  | .reaped => true
  | _ => false

/-- equality of two observations as far as the reference world speaks: same prompt / owner, every process in
the same state (a zombie counts as gone) and, while it lives, in its pipeline's group, the same set of lines -/
def obsAgree (m s : Obs) : Bool :=
  m.atPrompt = s.atPrompt && m.tfg = s.tfg &&
  m.procs.length = s.procs.length &&
  (m.procs.zip s.procs).all (fun (a, b) => a.1 = b.1 && ((goneLike a.2.1 && goneLike b.2.1) || (a.2.1 = b.2.1 && a.2.2 = b.2.2))) &&
  (cleanOuts m.outs).all (fun o => (cleanOuts s.outs).contains o) && (cleanOuts s.outs).all (fun o => (cleanOuts m.outs).contains o)

/-- the session shows what the reference world prescribes -/
def SessionHolds (c : Cfg) (acts : List SAct) : Bool :=
  match modelSession c acts with
  | some obs => obs.length = (specSession acts).length && (obs.zip (specSession acts)).all fun (m, s) => obsAgree m s
  | none => false

end Cicada.C07
