import Cicada.Model.Execute
/-!
# C03 — reference semantics of a command list (readable in a minute)

A program is a first pipeline followed by `(operator, pipeline)` pairs.  `specList` says what
"left to right, short-circuit, a skipped pipeline leaves the status unchanged and evaluation
continues" means.  Nothing here mentions the tokenizer or the loop of `execute.rs`.
-/
namespace Cicada.C03

inductive ListOp | semi | and | or
  deriving DecidableEq, Repr

def ListOp.text : ListOp → Str
  | .semi => [';']
  | .and => ['&', '&']
  | .or => ['|', '|']

/-- `first (op seg)*`; each segment is the raw text between operators (padding included) -/
structure Prog where
  first : Str
  rest : List (ListOp × Str)
  deriving Repr

/-- result of the reference semantics: final shell state, status so far, executed pipelines -/
structure Res (σ : Type) where
  sh : σ
  status : Int
  trace : List (Str × Int)

def specRest {σ} (run : σ → Str → σ × Int) : Res σ → List (ListOp × Str) → Res σ
  | r, [] => r
  | r, (o, seg) :: rest =>
    let runIt : Bool := match o with
      | .semi => true
      | .and => r.status = 0
      | .or => r.status ≠ 0
    if runIt then
      let (sh', s) := run r.sh (trim seg)
      specRest run { sh := sh', status := s, trace := r.trace ++ [(trim seg, s)] } rest
    else specRest run r rest

def specList {σ} (run : σ → Str → σ × Int) (sh : σ) (p : Prog) : Res σ :=
  let (sh', s) := run sh (trim p.first)
  specRest run { sh := sh', status := s, trace := [(trim p.first, s)] } p.rest

/-- the text of a program -/
def render (p : Prog) : Str :=
  p.first ++ (p.rest.map (fun (o, seg) => o.text ++ seg)).flatten

/-! ## input guard of the partial theorem (decided on the program text only) -/

/-- list-safety scanner for one raw segment; arguments: the open quote (if any) and whether a
backslash is pending.  True iff every `#`, `;`, `&&`, `||` is quoted or escaped (a single `|` or `&` followed by another
character is fine: pipelines are segments), quotes balance and no backslash dangles. -/
def safeSeg : Option Char → Bool → Str → Bool
  | q, bs, [] => q.isNone && !bs
  | q, true, _ :: cs => safeSeg q false cs
  | none, false, c :: cs =>
    if c = '\\' then safeSeg none true cs
    else if c = '\'' ∨ c = '"' ∨ c = '`' then safeSeg (some c) false cs
    else if c = '#' ∨ c = ';' then false
    else if c = '&' ∨ c = '|' then (match cs with
      | [] => false
      | d :: _ => if d = c then false else safeSeg none false cs)
    else safeSeg none false cs
  | some q, false, c :: cs =>
    if c = q then safeSeg none false cs
    else if c = '\\' ∧ q ≠ '\'' then safeSeg (some q) true cs
    else safeSeg (some q) false cs

def segOk (seg : Str) : Bool :=
  safeSeg none false seg && !(trim seg).isEmpty && !isListSep (trim seg)

/-- input guard of `C03_partial` (a Boolean function of the program text only) -/
def guard (p : Prog) : Bool := segOk p.first && p.rest.all (fun x => segOk x.2)

/-- what the loop of the model yields, in the vocabulary of the spec -/
def ofLoop {σ} (st : LoopSt σ) : Res σ := { sh := st.sh, status := st.status, trace := st.trace }

end Cicada.C03
