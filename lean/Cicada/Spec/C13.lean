import Cicada.Model.Subst
import Cicada.Spec.C01
/-!
# C13 — results of expansions are data: reference semantics

A command `p a₁ … aₙ` whose arguments are *deliveries*: a value handed over through `$N`, `${N}`,
`$(c)` or backquotes, unquoted or double-quoted.  Whatever the value is, the plan must have the shape of
a plain command: one stage, no redirection, no stdin source, foreground, no per-command environment;
double-quoted deliveries must in addition arrive as exactly one argument each.
-/
namespace Cicada.C13
open Cicada

inductive Form | var | braced | dollarParen | backquote
  deriving DecidableEq, Repr

structure Delivery where
  form : Form
  /-- variable name, or the command text -/
  name : Str
  dq : Bool
  deriving Repr

def Delivery.render (d : Delivery) : Str :=
  let core : Str := match d.form with
    | .var => '$' :: d.name
    | .braced => '$' :: '{' :: (d.name ++ ['}'])
    | .dollarParen => '$' :: '(' :: (d.name ++ [')'])
    | .backquote => '`' :: (d.name ++ ['`'])
  if d.dq then ['"'] ++ core ++ ['"'] else core

def renderCmd (p : Str) (ds : List Delivery) : Str :=
  p ++ (ds.map (fun d => ' ' :: d.render)).flatten

/-- the value a delivery hands over -/
def Delivery.value (se : SubstEnv) (d : Delivery) : Str :=
  match d.form with
  | .var => (se.env.value d.name).getD []
  | .braced => (se.env.value d.name).getD []
  | .dollarParen => trim (se.cmdOut d.name)
  | .backquote => trim (se.cmdOut d.name)

/-- shape of a plan: (number of stages, all redirections, all stdin sources, background, envs) -/
def shapeOf (p : Plan) : Nat × List Redir × List Tok × Bool × List (Str × Str) :=
  (p.commands.length, p.commands.flatMap (·.redirectsTo), p.commands.filterMap (·.redirectFrom), p.background, p.envs)

def plainShape : Nat × List Redir × List Tok × Bool × List (Str × Str) := (1, [], [], false, [])

end Cicada.C13
