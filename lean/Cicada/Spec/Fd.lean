import Cicada.Model.FdSession
/-!
# Reference semantics for C02 / C04 / C08: what a shell must do with descriptors

No descriptor numbers beyond 0, 1, 2 and no allocation: a stage is born with exactly three slots.
* pipeline `c0 | … | cm`: slot 1 of stage i < m is the write end of pipe i, slot 0 of stage i > 0 the read end of
  pipe i-1; the other slots are the shell's own 0 / 1 / 2 (capture: the last stage's 1 and 2 are the capture pipes);
* `< f` makes slot 0 the file (unreadable: the stage fails with status 1 and the program is not run);
  `<<< w` makes slot 0 a stream holding `w` and a newline;
* output redirections are applied left to right: `n> f` / `n>> f` open (truncate / append) and assign slot n,
  `2>&1` copies slot 1 into slot 2 *as it stands at that point*, `1>&2` the other way round; a target that cannot be
  opened fails the command with status 1 without running it;
* nothing else changes: the shell's table is the same before and after, whatever happened;
* the pipeline's status is the last stage's.
The same rules for a builtin that is the whole line: its text goes to what slot 1 (slot 2) ends up as.
-/
namespace Cicada.SpecFd
open Cicada.Kernel Cicada.Pipeline Cicada.FdSession

structure Slots where
  s0 : Option Ent
  s1 : Option Ent
  s2 : Option Ent
  opened : List (Str × Nat) := []

def Slots.table (s : Slots) : Table := fun fd =>
  if fd = 0 then s.s0 else if fd = 1 then s.s1 else if fd = 2 then s.s2 else none

/-- left-to-right meaning of the output redirections; `none` = a target could not be opened -/
def applyRedirs (cfg : Cfg) : Slots → List Redir → Slots × Bool
  | s, [] => (s, true)
  | s, (from_, op, to) :: rest =>
    if to = "&1".toList ∧ from_ = "2".toList then applyRedirs cfg { s with s2 := s.s1 } rest
    else if to = "&2".toList ∧ from_ = "1".toList then applyRedirs cfg { s with s1 := s.s2 } rest
    else if !cfg.canWrite to then (s, false)
    else
      let mode := if op = ">>".toList then 2 else 1
      let e : Ent := { obj := .file to mode }
      let s' := if from_ = "1".toList then { s with s1 := some e } else { s with s2 := some e }
      applyRedirs cfg { s' with opened := s.opened ++ [(to, mode)] } rest

/-- the reference reading of the words of a command: an unquoted word `<file` / `<<<word` (operator and operand
written without a blank) is an input redirection, exactly like `< file` / `<<< word`; the last one wins -/
def attachedFrom (cmd : Command) : Command :=
  let isAtt := fun (t : Tok) => t.1 = [] ∧ ((t.2.take 3 = "<<<".toList ∧ t.2.length > 3) ∨ (t.2.take 1 = "<".toList ∧ t.2.take 2 ≠ "<<".toList ∧ t.2.length > 1))
  match (cmd.tokens.filter (fun t => decide (isAtt t))).getLast? with
  | none => cmd
  | some t =>
    let from_ : Tok := if t.2.take 3 = "<<<".toList then ("<<<".toList, t.2.drop 3) else ("<".toList, t.2.drop 1)
    { cmd with tokens := cmd.tokens.filter (fun t => !decide (isAtt t)), redirectFrom := some from_ }

/-- one stage: (how it ends, files opened, here-string feed) given its base slots -/
def specStage (cfg : Cfg) (cmd0 : Command) (base : Slots) (hsPipe : Nat) (shellT : Table) (hsFails : Bool) : (ChildEnd × List (Str × Nat)) × Option (Nat × Str) :=
  let cmd := attachedFrom cmd0
  let text := (cmd.redirectFrom.map (fun (x : Tok) => x.2)).getD []
  let s0? : Option Slots :=
    if cmd.isFrom then
      if cfg.canRead text then some { base with s0 := some { obj := .file text 0 } } else none
    else if cmd.isHere then some { base with s0 := some { obj := .pipeR hsPipe } }
    else some base
  let fed := if cmd.isHere ∧ !hsFails then some (hsPipe, text) else none
  let s0? := if cmd.isHere ∧ hsFails then none else s0?
  match s0? with
  | none => ((.died 1, []), none)
  | some s =>
    match applyRedirs cfg s cmd.redirectsTo with
    | (s', false) => ((.died 1, s'.opened), fed)
    | (s', true) =>
      -- a builtin stage is a fork of the shell that never execs: it legitimately keeps the shell's other descriptors
      ((if cfg.isBuiltin cmd.name then .builtin cmd.argv (fun fd => if fd < 3 then s'.table fd else shellT fd)
        else if cfg.found cmd.name then .exec cmd.argv s'.table
        else .notFound cmd.argv s'.table, s'.opened), fed)

def specStages (cfg : Cfg) (t : Table) (m np : Nat) (capture : Bool) (capOut capErr : Nat) (hsFail : List Nat) :
    Nat → List Command → Nat → List (Nat × ChildEnd × List (Str × Nat)) × List (Nat × Str) × Nat
  | _, [], hs => ([], [], hs)
  | i, c :: rest, hs =>
    let base : Slots :=
      { s0 := if i > 0 then some { obj := .pipeR (np + i - 1) } else t 0,
        s1 := if i < m then some { obj := .pipeW (np + i) } else if capture then some { obj := .pipeW capOut } else t 1,
        s2 := if i = m ∧ capture then some { obj := .pipeW capErr } else t 2 }
    let (ch, fed) := specStage cfg c base hs t (hsFail.contains i)
    let (chs, feds, hs') := specStages cfg t m np capture capOut capErr hsFail (i + 1) rest (if (attachedFrom c).isHere ∧ !hsFail.contains i then hs + 1 else hs)
    ((i, ch) :: chs, (match fed with | some f => [f] | none => []) ++ feds, hs')

/-- what descriptor exhaustion did to this launch (reported by the launcher under test): the pipes between the
stages (or the capture pipes) could not be created, or the here-string pipe of some stages could not -/
structure PipeFailure where
  upfront : Bool := false
  stages : List Nat := []

/-- when the pipes cannot be created the pipeline must fail cleanly: nothing runs, status non-zero, the shell's
table unchanged.  A stage whose here-string pipe cannot be created fails like a stage whose redirection target
cannot be opened: it is not run (status 1), the other stages are unaffected. -/
def specPipeline (pf : PipeFailure) (cfg : Cfg) (cmds : List Command) (capture bg : Bool) (t : Table) (np : Nat) : Launch :=
  if pf.upfront ∨ (bg ∧ capture) then { shell := t, np := np, failed := true }
  else
    let m := cmds.length - 1
    let capOut := np + m
    let capErr := np + m + 1
    let hs0 := if capture then np + m + 2 else np + m
    let (chs, feds, hs') := specStages cfg t m np capture capOut capErr pf.stages 0 cmds hs0
    { shell := t, np := hs', children := chs, fed := feds,
      statusFrom := if bg ∨ cmds = [] then none else some m,
      capOut := if capture then some capOut else none }

/-- a builtin that is the whole line: the text goes to what slot 1 (or 2) is after the redirections;
an unopenable target: nothing is written -/
def specPrint (cfg : Cfg) (rs : List Redir) (err : Bool) (t : Table) : Printed :=
  match applyRedirs cfg { s0 := t 0, s1 := t 1, s2 := t 2 } rs with
  | (s, false) => { t := t, target := none, opened := s.opened, failed := true }
  | (s, true) => { t := t, target := ((if err then s.s2 else s.s1).map (·.obj)), opened := s.opened }

def specLauncher (pipeFails : Cfg → List Command → Bool → Bool → Table → Nat → PipeFailure) : Launcher where
  pipeline := fun cfg cmds capture bg t np => specPipeline (pipeFails cfg cmds capture bg t np) cfg cmds capture bg t np
  print := specPrint

end Cicada.SpecFd
