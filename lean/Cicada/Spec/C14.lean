import Cicada.Model.ScriptRun
/-!
# C14 — structured semantics of scripts (the textbook reading of the block structure)
-/
namespace Cicada.C14
open Cicada

mutual
inductive Stmt
  | cmd (line : Str)
  | brk
  | cont
  | ite (arms : Arms) (els : Block)        -- `els = .nil` means no else branch
  | for (var : Str) (init : Str) (body : Block)
  | whl (test : Str) (body : Block)
inductive Block | nil | cons (s : Stmt) (rest : Block)
inductive Arms | nil | cons (test : Str) (body : Block) (rest : Arms)
end

inductive Flag | normal | cont | brk
  deriving DecidableEq, Repr

mutual
/-- run a block; `break` / `continue` act on the innermost enclosing loop -/
def semBlock {σ} (sem : Sem σ) : Nat → Block → Bool → σ → Outcome (σ × Flag)
  | 0, _, _, _ => .diverge "sem-fuel"
  | _ + 1, .nil, _, st => .ok (st, .normal)
  | f + 1, .cons s rest, inLoop, st =>
    match s with
    | .cmd l => semBlock sem f rest inLoop (sem.runLine st l).1
    | .brk => if inLoop then .ok (st, .brk) else semBlock sem f rest inLoop st
    | .cont => if inLoop then .ok (st, .cont) else semBlock sem f rest inLoop st
    | .ite arms els =>
      (semArms sem f arms els inLoop st).bind (fun (st', fl) =>
        if fl = .normal then semBlock sem f rest inLoop st' else .ok (st', fl))
    | .for v init body =>
      (semFor sem f v body (sem.words st init) st).bind (fun st' => semBlock sem f rest inLoop st')
    | .whl t body =>
      (semWhile sem f t body st).bind (fun st' => semBlock sem f rest inLoop st')

/-- exactly the first arm whose condition has status 0 runs; else the else-branch if there is one -/
def semArms {σ} (sem : Sem σ) : Nat → Arms → Block → Bool → σ → Outcome (σ × Flag)
  | 0, _, _, _, _ => .diverge "sem-fuel"
  | f + 1, .nil, els, inLoop, st => semBlock sem f els inLoop st
  | f + 1, .cons t body rest, els, inLoop, st =>
    let (st', r) := sem.runLine st t
    if r = some 0 then semBlock sem f body inLoop st' else semArms sem f rest els inLoop st'

def semFor {σ} (sem : Sem σ) : Nat → Str → Block → List Str → σ → Outcome σ
  | 0, _, _, _, _ => .diverge "sem-fuel"
  | _ + 1, _, _, [], st => .ok st
  | f + 1, v, body, w :: ws, st =>
    (semBlock sem f body true (sem.setVar st v w)).bind (fun (st', fl) =>
      if fl = .brk then .ok st' else semFor sem f v body ws st')

def semWhile {σ} (sem : Sem σ) : Nat → Str → Block → σ → Outcome σ
  | 0, _, _, _ => .diverge "sem-fuel"
  | f + 1, t, body, st =>
    let (st', r) := sem.runLine st t
    if r = some 0 then
      (semBlock sem f body true st').bind (fun (st'', fl) =>
        if fl = .brk then .ok st'' else semWhile sem f t body st'')
    else .ok st'
end

end Cicada.C14
