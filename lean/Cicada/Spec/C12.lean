import Cicada.Model.Expand
/-!
# C12 — brace, range, tilde and filename expansion: reference semantics
-/
namespace Cicada.C12
open Cicada

/-! ## brace terms -/
mutual
inductive Word | nil | cons (t : Term) (w : Word)
inductive Term | lit (c : Char) | grp (a : Alts)
inductive Alts | one (w : Word) | more (w : Word) (r : Alts)
end

mutual
def render : Word → Str
  | .nil => []
  | .cons t w => renderT t ++ render w
def renderT : Term → Str
  | .lit c => [c]
  | .grp a => '{' :: (renderA a ++ ['}'])
def renderA : Alts → Str
  | .one w => render w
  | .more w r => render w ++ ',' :: renderA r
end

def isOne : Alts → Bool
  | .one _ => true
  | .more _ _ => false

mutual
/-- the words a brace term stands for: left-to-right cartesian product; a group without a comma is not a
list and keeps its braces -/
def denote : Word → List Str
  | .nil => [[]]
  | .cons t w => prod (denoteT t) (denote w)
def denoteT : Term → List Str
  | .lit c => [[c]]
  | .grp (.one w) => (denote w).map (fun x => '{' :: x ++ ['}'])
  | .grp (.more w r) => denote w ++ denoteA r
def denoteA : Alts → List Str
  | .one w => denote w
  | .more w r => denote w ++ denoteA r
end

def plainC (c : Char) : Bool := c ≠ '{' && c ≠ '}' && c ≠ ',' && c ≠ '\\'
mutual
def okW : Word → Bool
  | .nil => true
  | .cons t w => okT t && okW w
def okT : Term → Bool
  | .lit c => plainC c
  | .grp a => okA a
def okA : Alts → Bool
  | .one w => okW w
  | .more w r => okW w && okA r
end

/-! ## ranges -/

/-- `{m..n[..s]}`: the inclusive arithmetic sequence from m toward n -/
def rangeSpec (m n s : Int) : Nat → List Int
  | 0 => []
  | k + 1 => m :: rangeSpec (if m ≤ n then m + s else m - s) n s k

/-- number of elements of the sequence -/
def rangeCount (m n s : Int) : Nat := ((if m ≤ n then n - m else m - n) / s).toNat + 1

end Cicada.C12
