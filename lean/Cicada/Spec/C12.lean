import Cicada.Model.Expand
/-!
# C12 — brace, range, tilde and filename expansion: reference semantics
-/
namespace Cicada.C12
open Cicada

/-! ## brace terms -/
mutual
inductive Word | nil | cons (t : Term) (w : Word)
inductive Term | lit (c : Char) | grp (a : Alts)
inductive Alts | one (w : Word) | more (w : Word) (r : Alts)
end

mutual
def render : Word → Str
  | .nil => []
  | .cons t w => renderT t ++ render w
def renderT : Term → Str
  | .lit c => [c]
  | .grp a => '{' :: (renderA a ++ ['}'])
def renderA : Alts → Str
  | .one w => render w
  | .more w r => render w ++ ',' :: renderA r
end

def isOne : Alts → Bool
  | .one _ => true
  | .more _ _ => false

mutual
/-- the words a brace term stands for: left-to-right cartesian product; a group without a comma is not a
list and keeps its braces -/
def denote : Word → List Str
  | .nil => [[]]
  | .cons t w => prod (denoteT t) (denote w)
def denoteT : Term → List Str
  | .lit c => [[c]]
  | .grp (.one w) => (denote w).map (fun x => '{' :: x ++ ['}'])
  | .grp (.more w r) => denote w ++ denoteA r
def denoteA : Alts → List Str
  | .one w => denote w
  | .more w r => denote w ++ denoteA r
end

def plainC (c : Char) : Bool := c ≠ '{' && c ≠ '}' && c ≠ ',' && c ≠ '\\'
mutual
def okW : Word → Bool
  | .nil => true
  | .cons t w => okT t && okW w
def okT : Term → Bool
  | .lit c => plainC c
  | .grp a => okA a
def okA : Alts → Bool
  | .one w => okW w
  | .more w r => okW w && okA r
end

/-! ## ranges -/

/-- `{m..n[..s]}`: the inclusive arithmetic sequence from m toward n -/
def rangeSpec (m n s : Int) : Nat → List Int
  | 0 => []
  | k + 1 => m :: rangeSpec (if m ≤ n then m + s else m - s) n s k

/-- number of elements of the sequence -/
def rangeCount (m n s : Int) : Nat := ((if m ≤ n then n - m else m - n) / s).toNat + 1

/-! ## filename expansion -/

/-- is a path hidden from the pattern `pat`: its last component starts with `.` (and `.`/`..` always), unless the
pattern's own last component starts with `.*` -/
def hiddenFor (pat path : Str) : Bool :=
  let b := basename path
  b = ['.'] || b = ['.', '.'] || (b.head? = some '.' && !startsWith (basename pat) ['.', '*'])

/-- the words one unquoted word containing `*` stands for, given the matcher's (sorted) answer: the matching
non-hidden paths, or the word itself when there is none -/
def globWords (found : List Str) (word : Str) : List Str :=
  let vis := found.filter (fun p => !hiddenFor word p)
  if vis = [] then [word] else vis

/-- filename expansion of a token list: only unquoted tokens holding `*` are expanded, in place, the relative order of
the words of the line is kept; every produced word is one token (tagged `"` when it holds a blank) -/
def globSpec (glob : Str → Option (List Str)) (ts : List Tok) : List Tok :=
  ts.flatMap (fun (sep, text) =>
    if sep = [] ∧ text.contains '*' then (globWords ((glob text).getD []) text).map tagBlank else [(sep, text)])

end Cicada.C12
