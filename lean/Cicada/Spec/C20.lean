import Cicada.Model.Complete
import Cicada.Spec.C01
/-!
# C20 — what TAB inserts for a file name is read back as exactly that file: reference semantics

Three typing contexts: the word under the cursor is unquoted, or starts with an open `'`, or an open `"`.
`insertText` is what the completer puts on the line for a path text, `lineAfterTab` the whole line once the
user has closed a quote the editor left open (directories get `/` appended and stay open), `Holds20` says
that running this line hands the program exactly the path as its one argument, and `candidates` says which
entries are offered.  Nothing here mentions `parse_line` or `complete_path`.
-/
namespace Cicada.C20
open Cicada

inductive Ctx | unq | sq | dq
  deriving DecidableEq, Repr

def Ctx.sep : Ctx → Str
  | .unq => []
  | .sq => ['\'']
  | .dq => ['"']

/-- the text the completer inserts for the path text `n` (a file) -/
def insertText : Ctx → Str → Str
  | .unq, n => escapePath n
  | .sq, n => wrapSepString ['\''] n
  | .dq, n => wrapSepString ['"'] n

/-- the argument text on the line after TAB.  For a directory the editor appends `/` and, in a quoted
context, leaves the quote open; the user closes it before running the command. -/
def argAfterTab (ctx : Ctx) (n : Str) (isDir : Bool) : Str :=
  if isDir then
    match ctx with
    | .unq => escapePath n ++ ['/']
    | .sq => (wrapSepString ['\''] n).dropLast ++ ['/', '\'']
    | .dq => (wrapSepString ['"'] n).dropLast ++ ['/', '"']
  else insertText ctx n

def lineAfterTab (prog : Str) (ctx : Ctx) (n : Str) (isDir : Bool) : Str := prog ++ ' ' :: argAfterTab ctx n isDir

/-- what the program must receive -/
def received (n : Str) (isDir : Bool) : Str := if isDir then n ++ ['/'] else n

/-- the line is one command; its plan (the planning function of C01) -/
def planLine (se : SubstEnv) (f : Nat) (line : Str) : Outcome (Except String Plan) :=
  match lineToCmds line with
  | [item] => planOf se f item
  | _ => .err "not-one-command"

def expectedObs (prog : Str) (n : Str) (isDir : Bool) : C01.Obs :=
  { stages := [([prog, received n isDir], [], none)], envs := [], background := false }

/-- **the property on one name**: the line is planned as one foreground stage whose argv is the program word
and exactly the name, no redirection, no stdin source, no environment -/
def Holds20 (se : SubstEnv) (f : Nat) (prog : Str) (ctx : Ctx) (n : Str) (isDir : Bool) : Prop :=
  ∃ plan, planLine se f (lineAfterTab prog ctx n isDir) = .ok (.ok plan) ∧
    C01.obsOfPlan plan = expectedObs prog n isDir

/-- **the candidates**: the entries that start with the typed prefix (directories only after `cd`), by name -/
def candidates (entries : List (Str × Bool)) (pre : Str) (forDir : Bool) : List (Str × Bool) :=
  (entries.filter (fun e => startsWith e.1 pre && (!forDir || e.2))).mergeSort (fun a b => strLe a.1 b.1)

/-- what is offered for one candidate: inserted text, what the menu shows, the suffix kind -/
def offer (ctx : Ctx) (dirPart : Str) (e : Str × Bool) : Completion :=
  let n := dirPart ++ e.1
  { completion := if e.2 then
        (match ctx with
         | .unq => escapePath n
         | .sq => (wrapSepString ['\''] n).dropLast
         | .dq => (wrapSepString ['"'] n).dropLast)
      else insertText ctx n,
    display := if dirPart = [] then none else some e.1,
    dirSuffix := e.2 }

/-- how the user types a prefix in a context (the escaped spelling is the completer's own) -/
def typedWord : Ctx → Str → Str
  | .unq, p => escapePath p
  | .sq, p => '\'' :: p
  | .dq, p => '"' :: p

/-! ## input guards (Boolean functions of the inputs only) and classes of the inputs outside them -/

/-- characters of a prefix typed without quotes for which the candidate theorem is stated -/
def plainChar (c : Char) : Bool := isAlphaA c || isDigitA c || c = '_' || c = '-' || c = '.' || c = '/'

/-- prefixes (directory part included) the candidate theorem covers -/
def okPrefix : Ctx → Str → Bool
  | .unq, p => p.all plainChar && !containsSub p ['/', '/']
  | .sq, p => p ≠ [] && !p.contains '\'' && generic p
  | .dq, p => p ≠ [] && p.all (fun c => c ≠ '$' && c ≠ '`' && c ≠ '\\' && c ≠ '"') && generic p
where generic (p : Str) : Bool :=
  !needsExpandHome p && p.head? ≠ some '$' && !isEnvPrefix p && !containsSub p ['/', '/']

/-- can the context express the prefix at all (outside: not an input of the statement) -/
def prefixExpressible : Ctx → Str → Bool
  | .unq, _ => true
  | .sq, p => p ≠ [] && !p.contains '\''
  | .dq, p => p ≠ [] && p.all (fun c => c ≠ '$' && c ≠ '`' && c ≠ '\\' && c ≠ '"')

/-- path texts for which the unquoted round trip is proved: non-empty, not starting with `~`, `|` or `$`,
none of `$` `` ` `` `*` `{` `<` `>`, not exactly `&`, not ending in white space -/
def okUnq (n : Str) : Bool :=
  n ≠ [] && n.head? ≠ some '~' && n.head? ≠ some '|' &&
  n.all (fun c => c ≠ '$' && c ≠ '`' && c ≠ '*' && c ≠ '{' && c ≠ '<' && c ≠ '>') &&
  n ≠ ['&'] && (match n.getLast? with
    | some c => !isWs c
    | none => false)

def okName : Ctx → Str → Bool
  | .unq, n => okUnq n
  | .sq, n => !n.contains '\''
  | .dq, n => n.all (fun c => c ≠ '$' && c ≠ '`' && c ≠ '\\' && c ≠ '"')

/-- finding class of a path text outside `okName`, named after what the code does with it.
`unproved:*` = outside the proved domain, no failure known (the check reports any) -/
def classifyName (ctx : Ctx) (n : Str) (isDir : Bool) : String :=
  if okName ctx (received n isDir) then "-" else
  match ctx with
  | .sq => "sq-quote"
  | .dq =>
    if n.contains '`' then "dq-backquote"
    else if n.contains '$' then "dq-dollar"
    else if n.contains '\\' then "dq-backslash"
    else "unproved:dq-quote"
  | .unq =>
    if n = [] then "outside-statement:empty-name"
    else if n.any (· = '`') then "esc-backquote"
    else if n.any (· = '$') then "esc-dollar"
    else if n.head? = some '~' then "tilde-first"
    else if n.any (· = '{') then "esc-brace"
    else if n.any (· = '*') then "esc-glob"
    else if n = ['&'] ∧ !isDir then "esc-amp"
    else if (match n.getLast? with
      | some c => isWs c && !isDir
      | none => false) then "trailing-blank"
    else if n.any (fun c => c = '<' || c = '>') then "unproved:esc-ltgt"
    else "unproved:esc-pipe-first"   -- a leading `|` (read as a token tagged `\\`)

/-- class of an expressible prefix outside `okPrefix` -/
def classifyPrefix (ctx : Ctx) (p : Str) : String :=
  if okPrefix ctx p then "-" else
  if needsExpandHome p then "outside-statement:home-prefix"
  else if containsSub p ['/', '/'] then "outside-statement:double-slash"
  else if ctx ≠ .unq ∧ p.head? = some '$' then "outside-statement:env-prefix"
  else if ctx = .unq ∧ (p.head? = some '$' ∨ isEnvPrefix p) then "prefix-dollar"
  else if ctx = .unq ∧ p.head? = some '|' then "prefix-pipe-first"
  else "unproved:prefix"

/-- class of a case: the prefix's own class if it is a finding, else the class of the first candidate (by
name) in a finding class, else an `unproved:` class if anything lies outside the proved domain -/
def classifyCase (ctx : Ctx) (pre : Str) (cands : List (Str × Bool)) : String :=
  let pc := classifyPrefix ctx pre
  let dirPart := uptoLast '/' pre
  -- an unquoted prefix holding an escaped `<` or `>` is read as a single-quoted token: the completer answers in that style
  let ctx' := if ctx = .unq ∧ pre.any (fun c => c = '<' || c = '>') then Ctx.sq else ctx
  let ncs := cands.map (fun e => classifyName ctx' (dirPart ++ e.1) e.2)
  if pc ≠ "-" ∧ !pc.startsWith "unproved:" then pc
  else match ncs.find? (fun c => c ≠ "-" ∧ !c.startsWith "unproved:") with
    | some c => c
    | none => match ncs.find? (fun c => c ≠ "-") with
      | some c => c
      | none => pc

end Cicada.C20
