import Cicada.Model.Script
/-!
# C15 — positional parameters: reference semantics

A word is a sequence of segments; `$n` / `${n}` stand for the n-th argument (nothing if missing), `$@` for
the arguments from the first on, joined by blanks; everything else is kept.
-/
namespace Cicada.C15
open Cicada

inductive Seg
  | lit (s : Str)
  | pos (digits : Str)      -- `$n`
  | bpos (digits : Str)     -- `${n}`
  | all                     -- `$@`
  deriving Repr

def Seg.render : Seg → Str
  | .lit s => s
  | .pos d => '$' :: d
  | .bpos d => '$' :: '{' :: (d ++ ['}'])
  | .all => ['$', '@']

def render (w : List Seg) : Str := (w.map Seg.render).flatten

def Seg.value (args : List Str) : Seg → Str
  | .lit s => s
  | .pos d => argValue args d
  | .bpos d => argValue args d
  | .all => joinWith [' '] (args.drop 1)

def specArgs (args : List Str) (w : List Seg) : Str := (w.map (Seg.value args)).flatten

def digitsOk (d : Str) : Bool := !d.isEmpty && d.all isDigitA
def litOk (s : Str) : Bool := !s.isEmpty && s.all (fun c => c ≠ '$' && c ≠ '\n')

/-- `$n` must not be followed by a digit (it would extend the number) or by `}` (the code swallows it) -/
def segOk (after : Str) : Seg → Bool
  | .lit s => litOk s
  | .pos d => digitsOk d && (match after.head? with
      | some c => !isDigitA c && c ≠ '}'
      | none => true)
  | .bpos d => digitsOk d
  | .all => (match after.head? with
      | some c => c ≠ '}'
      | none => true)

def wordOk : List Seg → Bool
  | [] => true
  | s :: rest => segOk (render rest) s && wordOk rest

end Cicada.C15
