import Cicada.Model.Expand
/-!
# C10 — parameter expansion: reference semantics

A word is a sequence of segments; expanding it replaces every reference by the variable's current
value, once, and keeps everything else.
-/
namespace Cicada.C10

inductive Seg
  | lit (s : Str)        -- literal text (free of `$`)
  | var (n : Str)        -- `$NAME`
  | braced (n : Str)     -- `${NAME}`
  | status               -- `$?`
  | pid                  -- `$$`
  deriving Repr, DecidableEq

def Seg.render : Seg → Str
  | .lit s => s
  | .var n => '$' :: n
  | .braced n => '$' :: '{' :: (n ++ ['}'])
  | .status => ['$', '?']
  | .pid => ['$', '$']

def render (w : List Seg) : Str := (w.map Seg.render).flatten

/-- the value a reference stands for: the variable's value (nothing if unset), the last status, the shell's pid -/
def Seg.value (e : Env) : Seg → Str
  | .lit s => s
  | .var n => (e.value n).getD []
  | .braced n => (e.value n).getD []
  | .status => showInt e.status
  | .pid => showNat e.pid

def specExpand (e : Env) (w : List Seg) : Str := (w.map (Seg.value e)).flatten

inductive Quote | none | dq | sq
  deriving DecidableEq, Repr

def Quote.sep : Quote → Str
  | .none => []
  | .dq => ['"']
  | .sq => ['\'']

/-- the expected token after the pass -/
def specToken (e : Env) (q : Quote) (w : List Seg) : Tok :=
  (q.sep, if q = .sq then render w else specExpand e w)

/-! ## well-formedness of a word (what the property's statement presupposes) -/

/-- an identifier `[A-Za-z_][A-Za-z0-9_]*` -/
def isIdent (n : Str) : Bool :=
  match n with
  | [] => false
  | c :: cs => isNameStart c && cs.all isNameChar

def litOk (s : Str) : Bool := !s.isEmpty && s.all (fun c => c ≠ '$' && c ≠ '\'' && c ≠ '`')

/-- segment-level conditions, given the text that follows: a `$NAME` must not be followed by a
character that would extend the name (the generator writes such cases with `${NAME}`) -/
def segOk (after : Str) : Seg → Bool
  | .lit s => litOk s
  | .var n => isIdent n && (match after.head? with
      | some c => !isKeyChar c
      | none => true)
  | .braced n => isIdent n
  | .status => true
  | .pid => true

def wordOk : List Seg → Bool
  | [] => true
  | s :: rest => segOk (render rest) s && wordOk rest

/-- does the word hold at least one reference -/
def hasRef (w : List Seg) : Bool := w.any (fun s => match s with
  | .lit _ => false
  | _ => true)

end Cicada.C10
