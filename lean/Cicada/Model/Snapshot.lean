import Cicada.Model.Expand
/-!
# The env-expansion loop of the pinned snapshot (32052dc), kept for the refutation theorems

`expand_env` used to re-run a first-match rewrite (`expand_one_env`) while `env_in_token` held
(shell.rs:441-487, 803-807 of the snapshot).  Repaired by a `fix:` commit; the current code is
`expandEnvs` in `Model/Expand.lean`.
-/
namespace Cicada.Snapshot
open Cicada

/-- result of looking for the leftmost `$KEY` (re1) -/
def findRe1 : Str → Str → Option (Str × Str × Str)
  | _, [] => none
  | acc, c :: cs =>
    if c = '$' then
      let name := cs.takeWhile isKeyChar
      if name ≠ [] then some (acc, name, cs.dropWhile isKeyChar)
      else match cs with
        | '$' :: r => some (acc, ['$'], r)
        | '?' :: r => some (acc, ['?'], r)
        | _ => findRe1 (acc ++ [c]) cs
    else findRe1 (acc ++ [c]) cs

/-- leftmost `${KEY}` (re2) -/
def findRe2 : Str → Str → Option (Str × Str × Str)
  | _, [] => none
  | acc, c :: cs =>
    let here : Option (Str × Str × Str) :=
      if c = '$' then
        match cs with
        | '{' :: r =>
          let name := r.takeWhile isKeyChar
          let after := r.dropWhile isKeyChar
          if name ≠ [] then
            (match after with
             | '}' :: tl => some (acc, name, tl)
             | _ => none)
          else (match r with
             | '$' :: '}' :: tl => some (acc, ['$'], tl)
             | '?' :: '}' :: tl => some (acc, ['?'], tl)
             | _ => none)
        | _ => none
      else none
    match here with
    | some x => some x
    | none => findRe2 (acc ++ [c]) cs

/-- `expand_one_env` on a newline-free token (shell.rs:441-487).  always `some`. -/
def expandOneEnv (e : Env) (t : Str) : Option Str :=
  if !noNl t then
    -- re1 (`^…$`, `.` ≠ newline) cannot match; re2 can only match inside the last line, and what
    -- precedes the match is dropped (the result is built from the captures alone)
    let last := (t.reverse.takeWhile (· ≠ '\n')).reverse
    match findRe2 [] last with
    | some (head, key, tail) => some (head ++ e.keyValue key ++ tail)
    | none => some t
  else
  match findRe1 [] t with
  | some (head, key, tail) => some (head ++ e.keyValue key ++ tail)
  | none =>
    match findRe2 [] t with
    | some (head, key, tail) => some (head ++ e.keyValue key ++ tail)
    | none => some t

/-- the `while env_in_token` loop (shell.rs:803-807) -/
def expandEnvLoop (e : Env) : Nat → Str → Outcome Str
  | 0, _ => .diverge "env-loop"
  | f + 1, t =>
    if envInToken t then
      match expandOneEnv e t with
      | none => .err "unmodelled:newline"
      | some t' => expandEnvLoop e f t'
    else .ok t

def mapTokM (f : Tok → Outcome Tok) : List Tok → Outcome (List Tok)
  | [] => .ok []
  | t :: ts => (f t).bind (fun t' => (mapTokM f ts).bind (fun ts' => .ok (t' :: ts')))

def expandEnv (e : Env) (fuel : Nat) (ts : List Tok) : Outcome (List Tok) :=
  mapTokM (fun (sep, text) =>
    if sep = ['`'] ∨ sep = ['\''] then .ok (sep, text)
    else if !envInToken text then .ok (sep, text)
    else (expandEnvLoop e fuel text).map (fun t => (sep, t))) ts


end Cicada.Snapshot
