import Cicada.Basic
/-!
# Model of history recording (src/history.rs add_raw, src/builtins/history.rs, src/main.rs:168-172)

The SQL text is built exactly as the code builds it; `lexLit` is SQLite's string-literal lexer; the table is
an abstract list of rows.
-/
namespace Cicada.Hist

/-- `str::replace(s, "'", "''")` -/
def dbl : Str → Str
  | [] => []
  | c :: cs => if c = '\'' then '\'' :: '\'' :: dbl cs else c :: dbl cs

def lit (s : Str) : Str := '\'' :: (dbl s ++ ['\''])

/-- body of a SQLite string literal after the opening quote: `''` is a quote, a single `'` ends it -/
def lexBody : Str → Option (Str × Str)
  | [] => none
  | '\'' :: '\'' :: rest => (lexBody rest).map (fun (s, r) => ('\'' :: s, r))
  | '\'' :: rest => some ([], rest)
  | c :: rest => (lexBody rest).map (fun (s, r) => (c :: s, r))

/-- one string literal at the head of the text: (value, rest) -/
def lexLit : Str → Option (Str × Str)
  | '\'' :: rest => lexBody rest
  | _ => none

/-- the VALUES part of the INSERT of `add_raw`: the three literals and the numbers between them -/
def insertValues (line session dir nums : Str) : Str :=
  "VALUES(".toList ++ lit (trim line) ++ ", ".toList ++ nums ++ ", ".toList ++ lit session ++ ", ".toList ++ lit ("dir:".toList ++ dir ++ "|".toList) ++ ");".toList

/-- read the VALUES part back: the three values, if the text has exactly that shape -/
def parseValues (nums : Str) (s : Str) : Option (Str × Str × Str) :=
  if !startsWith s "VALUES(".toList then none else
  match lexLit (s.drop 7) with
  | none => none
  | some (a, r1) =>
    let mid := ", ".toList ++ nums ++ ", ".toList
    if !startsWith r1 mid then none else
    match lexLit (r1.drop mid.length) with
    | none => none
    | some (b, r2) =>
      if !startsWith r2 ", ".toList then none else
      match lexLit (r2.drop 2) with
      | none => none
      | some (c, r3) => if r3 = ");".toList then some (a, b, c) else none

structure Row where
  rowid : Nat
  inp : Str
  dir : Str
  deriving Repr, DecidableEq

structure Db where
  rows : List Row := []
  deriving Repr

/-- SQLite's rowid for a new row of a table without AUTOINCREMENT: one more than the largest in use -/
def Db.next (db : Db) : Nat := db.rows.foldl (fun m r => max m r.rowid) 0 + 1

/-- `history add LINE` in directory `dir` -/
def add (db : Db) (line dir : Str) : Db :=
  { rows := db.rows ++ [{ rowid := db.next, inp := trim line, dir := dir }] }

def lowerA (c : Char) : Char := if 'A' ≤ c ∧ c ≤ 'Z' then Char.ofNat (c.toNat + 32) else c

/-- SQLite LIKE: `%` any sequence, `_` any one character, ASCII case-insensitive -/
def like : Nat → Str → Str → Bool
  | 0, _, _ => false
  | f + 1, pat, s =>
    match pat with
    | [] => s = []
    | '%' :: pr =>
      like f pr s || (match s with
        | [] => false
        | _ :: sr => like f ('%' :: pr) sr)
    | '_' :: pr => (match s with
        | [] => false
        | _ :: sr => like f pr sr)
    | c :: pr => (match s with
        | [] => false
        | d :: sr => lowerA c = lowerA d && like f pr sr)

/-- `history -n -l 1000 --asc PATTERN`: the matching inputs, oldest first -/
def list (db : Db) (pattern : Str) : List Str :=
  (db.rows.filter (fun r => pattern = [] || like (2 * (pattern.length + r.inp.length) + 4) ('%' :: (pattern ++ ['%'])) r.inp)).map (·.inp)

def delete (db : Db) (ids : List Nat) : Db := { db with rows := db.rows.filter (fun r => !ids.contains r.rowid) }

/-- the prompt's rule (main.rs:169): record unless the typed line starts with a blank or repeats the previous one -/
def shouldRecord (typed line previous : Str) : Bool := typed.head? ≠ some ' ' && line ≠ previous

end Cicada.Hist
