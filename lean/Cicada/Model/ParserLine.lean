import Cicada.Basic
import Cicada.Generated
/-!
# Model of `src/parsers/parser_line.rs` and the string helpers of `src/tools.rs` it uses

Hand transcription, function by function; `file:line` refer to the pinned tree.
Import-free apart from `Basic`/`Generated` (links into the driver).
-/
namespace Cicada

/-- Unicode `\d` of the `regex` crate (table regenerated from regex-syntax, see `Generated`). -/
def isDigitU (c : Char) : Bool :=
  Generated.decimalRanges.any (fun (lo, hi) => lo ≤ c.toNat && c.toNat ≤ hi)

/-- `^\d+$` -/
def reAllDigitsU (s : Str) : Bool := !s.isEmpty && s.all isDigitU

/-! ## tools::is_arithmetic (tools.rs:200-208) -/

def arithBody (c : Char) : Bool :=
  c = ' ' || isDigitA c || c = '.' || c = '(' || c = ')' || c = '+' || c = '-' || c = '*' || c = '/' || c = '^'
def arithLast (c : Char) : Bool := c = '.' || isDigitA c || c = ' ' || c = ')'
def arithOp (c : Char) : Bool := c = '+' || c = '-' || c = '*' || c = '/' || c = '^'

/-- `^[ 0-9\.\(\)\+\-\*/\^]+[\.0-9 \)]$`: a non-empty run of body characters, then one closing character -/
def reArithShape (s : Str) : Bool :=
  match s.getLast? with
  | none => false
  | some last => !s.dropLast.isEmpty && s.dropLast.all arithBody && arithLast last

def isArithmetic (l : Str) : Bool :=
  l.any isDigitA && l.any arithOp && reArithShape l

/-! ## line_to_cmds (parser_line.rs:47-149) -/

namespace L2C
structure S where
  result : List Str := []
  sep : Str := []
  token : Str := []
  bs : Bool := false
  stop : Bool := false
  deriving Repr, DecidableEq

def pushTrim (r : List Str) (t : Str) : List Str :=
  let t' := trim t
  if t'.isEmpty then r else r ++ [t']

def step (s : S) (c : Char) (next : Option Char) : S :=
  if s.stop then s else
  if s.bs then { s with token := s.token ++ ['\\', c], bs := false } else
  if c = '\\' ∧ s.sep ≠ ['\''] then { s with bs := true } else
  if c = '#' then
    if s.sep.isEmpty then { s with stop := true } else { s with token := s.token ++ [c] }
  else if c = '\'' ∨ c = '"' ∨ c = '`' then
    if s.sep.isEmpty then { s with sep := [c], token := s.token ++ [c] }
    else if s.sep = [c] then { s with sep := [], token := s.token ++ [c] }
    else { s with token := s.token ++ [c] }
  else if c = '&' ∨ c = '|' then
    if s.sep.isEmpty ∧ (next = none ∨ next ≠ some c) then { s with token := s.token ++ [c] }
    else if s.sep.isEmpty then { s with sep := [c] }
    else if s.sep = [c] then
      { s with result := pushTrim s.result s.token ++ [[c, c]], token := [], sep := [] }
    else { s with token := s.token ++ [c] }
  else if c = ';' then
    if s.sep.isEmpty then { s with result := pushTrim s.result s.token ++ [[';']], token := [] }
    else { s with token := s.token ++ [c] }
  else { s with token := s.token ++ [c] }

def go (s : S) : Str → S
  | [] => s
  | c :: rest => go (step s c rest.head?) rest

def finish (s : S) : List Str :=
  if s.token.isEmpty then s.result else s.result ++ [trim s.token]
end L2C

def lineToCmds (l : Str) : List Str := L2C.finish (L2C.go {} l)

/-! ## parse_line (parser_line.rs:164-473) -/

/-- `^[a-zA-Z0-9_]+=.*$` (parser_line.rs:415) -/
def reEnvLoose : Str → Bool
  | [] => false
  | c :: cs => isNameChar c && go cs
where go : Str → Bool
  | [] => false
  | c :: cs => if c = '=' then cs.all (· ≠ '\n') else isNameChar c && go cs

namespace PL
structure St where
  result : List Tok := []
  sep : Str := []
  sepSecond : Str := []
  token : Str := []
  bs : Bool := false
  metParen : Bool := false
  newRound : Bool := true
  skipNext : Bool := false
  hasDollar : Bool := false
  parensLeftIgnored : Bool := false
  sepMade : Str := []
  semiOk : Bool := false
  stop : Bool := false
  deriving Repr, DecidableEq

def isQ (c : Char) : Bool := c = '\'' || c = '"' || c = '`'

/-- push current token using sep_made if (sep empty and sep_made set) else `sp` -/
def pushTok (s : St) (sp : Str) : St :=
  if s.sep = [] ∧ s.sepMade ≠ [] then { s with result := s.result ++ [(s.sepMade, s.token)], sepMade := [] }
  else { s with result := s.result ++ [(sp, s.token)] }

def resetTok (s : St) : St := { s with sep := [], sepSecond := [], token := [], newRound := true }

def stepTail (s : St) (c : Char) : St :=
  if c = ' ' then
    if s.semiOk then { resetTok (pushTok s s.sep) with semiOk := false }
    else if s.metParen then { s with token := s.token ++ [c] }
    else if s.sep = ['\\'] then { s with result := s.result ++ [(['\\'], s.token)], token := [], newRound := true }
    else if s.sep = [] then
      if s.sepSecond = [] then { pushTok s [] with token := [], newRound := true }
      else { s with token := s.token ++ [c] }
    else { s with token := s.token ++ [c] }
  else if isQ c then
    let s := if s.sep ≠ [c] ∧ s.semiOk then { resetTok (pushTok s s.sep) with semiOk := false } else s
    if s.sep ≠ [c] ∧ s.metParen then { s with token := s.token ++ [c] }
    else if s.sep = [] ∧ s.sepSecond ≠ [] ∧ s.sepSecond ≠ [c] then { s with token := s.token ++ [c] }
    else if s.sep = [] then
      if !reEnvLoose s.token ∧ (c = '\'' ∨ c = '"') then { s with sep := [c] }
      else
        let s := { s with token := s.token ++ [c] }
        if s.sepSecond = [] then { s with sepSecond := [c] }
        else if s.sepSecond = [c] then { s with sepSecond := [] } else s
    else if s.sep = [c] then { s with semiOk := true }
    else { s with token := s.token ++ [c] }
  else { s with token := s.token ++ [c] }

def stepMid (s : St) (c : Char) : St :=
  if c = '|' then
    if s.semiOk then
      let s := pushTok s s.sep
      { resetTok { s with result := s.result ++ [([], ['|'])] } with semiOk := false }
    else if !s.metParen ∧ s.sepSecond = [] ∧ s.sep = [] then
      let s := pushTok s []
      resetTok { s with result := s.result ++ [([], ['|'])] }
    else stepTail s c
  else stepTail s c

def step (s : St) (c : Char) (next : Option Char) : St :=
  if s.stop then s else
  if s.skipNext then { s with skipNext := false } else
  if s.bs ∧ s.sep = [] ∧ (c = '>' ∨ c = '<') then
    { s with sepMade := ['\''], token := s.token ++ [c], bs := false } else
  if s.bs ∧ s.sep = ['"'] ∧ c ≠ '"' then
    { s with token := s.token ++ ['\\', c], bs := false } else
  if s.bs then
    (if s.newRound ∧ s.sep = [] ∧ (c = '|' ∨ c = '$') ∧ s.token = [] then
      { s with sep := ['\\'], token := [c], newRound := false, bs := false }
     else { s with token := s.token ++ [c], newRound := false, bs := false }) else
  let s := if c = '$' then { s with hasDollar := true } else s
  if c = '(' ∧ s.sep = [] ∧ !s.hasDollar ∧ s.token = [] then { s with parensLeftIgnored := true } else
  let s := if c = '(' ∧ s.sep = [] then { s with metParen := true } else s
  if c = ')' ∧ s.parensLeftIgnored ∧ !s.hasDollar ∧ (next = none ∨ next = some ' ') then s else
  let s := if c = ')' ∧ s.sep = [] then { s with metParen := false } else s
  if c = '\\' then
    (if s.sep = ['\''] ∨ s.sepSecond ≠ [] then { s with token := s.token ++ [c] } else { s with bs := true }) else
  if s.newRound then
    if c = ' ' then s else
    if isQ c then { s with sep := [c], newRound := false } else
    let s := { s with sep := [] }
    if c = '#' then { s with stop := true } else
    if c = '|' then
      (if next = some '|' then { s with result := s.result ++ [([], ['|', '|'])], skipNext := true, newRound := true }
       else { s with result := s.result ++ [([], ['|'])], newRound := true })
    else { s with token := s.token ++ [c], newRound := false }
  else stepMid s c

def go (s : St) : Str → St
  | [] => s
  | c :: rest => go (step s c rest.head?) rest

def finish (s : St) : List Tok :=
  if s.token ≠ [] ∨ s.semiOk then
    if s.sep = [] ∧ s.sepMade ≠ [] then s.result ++ [(s.sepMade, s.token)] else s.result ++ [(s.sep, s.token)]
  else s.result

/-- `is_complete` (parser_line.rs:455-470) -/
def complete (s : St) : Bool :=
  let r := finish s
  let c1 := match r.getLast? with
    | some (sp, t) => !(sp = [] ∧ t = ['|'])
    | none => true
  let c2 := if s.sep ≠ [] then s.semiOk else c1
  if s.bs then false else c2
end PL

structure LineInfo where
  tokens : List Tok
  complete : Bool
  deriving Repr, DecidableEq

def parseLineInfo (l : Str) : LineInfo :=
  if isArithmetic l then
    { tokens := (splitOnChar ' ' l).map (fun x => (([] : Str), x)), complete := true }
  else
    let s := PL.go {} l
    { tokens := PL.finish s, complete := PL.complete s }

def parseLine (l : Str) : List Tok := (parseLineInfo l).tokens

/-! ## tools::wrap_sep_string (tools.rs:124-150), tokens_to_line (parser_line.rs:24-40) -/

/-- state: (met_subsep, previous_subsep) -/
def wrapBody (sep : Str) : Bool → Char → Str → Str
  | _, _, [] => []
  | met, prev, c :: cs =>
    let (met', prev') :=
      if sep = [] ∧ (c = '`' ∨ c = '"') then
        if !met then (true, c) else if c = prev then (false, 'N') else (met, prev)
      else (met, prev)
    let e1 : Str := if [c] = sep then ['\\'] else []
    let e2 : Str := if c = ' ' ∧ sep = [] ∧ !met' then ['\\'] else []
    e1 ++ e2 ++ [c] ++ wrapBody sep met' prev' cs

def wrapSepString (sep s : Str) : Str := sep ++ wrapBody sep false 'N' s ++ sep

def tokenToText (t : Tok) : Str := if t.1 = [] then t.2 else wrapSepString t.1 t.2

/-- `tokens_to_line`: texts joined by one blank (the trailing blank is truncated) -/
def tokensToLine (ts : List Tok) : Str := joinWith [' '] (ts.map tokenToText)

/-- `parser_line::unquote` (parser_line.rs:572-582) -/
def unquote (t : Str) : Str :=
  let strip (q : Char) : Option Str :=
    if t.head? = some q ∧ t.getLast? = some q then some (t.drop 1).dropLast else none
  match strip '"' with
  | some r => r
  | none => match strip '\'' with
    | some r => r
    | none => t

/-! ## tokens_to_redirections (parser_line.rs:475-570) -/

abbrev Redir := Str × Str × Str

/-- split `word` as `s1 (>|>>) s3` following `^([^>]*)(>>?)([^>]+)$` / `^([^>]*)(>>?)$`.
Returns `(s1, op, s3)` where `s3 = []` means the second pattern matched. `none`: neither. -/
def splitRedirWord (w : Str) : Option (Str × Str × Str) :=
  let s1 := w.takeWhile (· ≠ '>')
  match w.dropWhile (· ≠ '>') with
  | [] => none
  | _ :: r1 =>
    match r1 with
    | [] => some (s1, ['>'], [])
    | '>' :: r2 =>
      if r2 = [] then some (s1, ['>', '>'], [])
      else if r2.all (· ≠ '>') then some (s1, ['>', '>'], r2) else none
    | _ => if r1.all (· ≠ '>') then some (s1, ['>'], r1) else none

structure RState where
  toks : List Tok := []
  redirs : List Redir := []
  cont : Bool := false
  s1 : Str := []
  s2 : Str := []

def redirStep (st : RState) (t : Tok) : Except String RState :=
  let sep := t.1
  let word := t.2
  if sep ≠ [] ∧ !st.cont then .ok { st with toks := st.toks ++ [t] }
  else if st.cont then
    if sep = [] ∧ word.head? = some '&' then .error "bad redirection syntax near &"
    else if reAllDigitsU st.s1 then
      if st.s1 ≠ ['1'] ∧ st.s1 ≠ ['2'] then .error "Bad file descriptor #3"
      else .ok { st with redirs := st.redirs ++ [(st.s1, st.s2, word)], cont := false }
    else
      let toks := if st.s1 ≠ [] then st.toks ++ [(sep, st.s1)] else st.toks
      .ok { st with toks := toks, redirs := st.redirs ++ [(['1'], st.s2, word)], cont := false }
  else if !word.contains '>' then .ok { st with toks := st.toks ++ [t] }
  else match splitRedirWord word with
    | none => .ok st
    | some (s1, s2, s3) =>
      if s3 ≠ [] then
        if s3.head? = some '&' ∧ s3 ≠ ['&', '1'] ∧ s3 ≠ ['&', '2'] then .error "Bad file descriptor #1"
        else if reAllDigitsU s1 then
          if s1 ≠ ['1'] ∧ s1 ≠ ['2'] then .error "Bad file descriptor #2"
          else .ok { st with redirs := st.redirs ++ [(s1, s2, s3)] }
        else
          let toks := if s1 ≠ [] then st.toks ++ [(sep, s1)] else st.toks
          .ok { st with toks := toks, redirs := st.redirs ++ [(['1'], s2, s3)] }
      else .ok { st with cont := true, s1 := s1, s2 := s2 }

def redirGo (st : RState) : List Tok → Except String RState
  | [] => .ok st
  | t :: ts => match redirStep st t with
    | .ok st' => redirGo st' ts
    | .error e => .error e

def tokensToRedirections (ts : List Tok) : Except String (List Tok × List Redir) :=
  match redirGo {} ts with
  | .error e => .error e
  | .ok st => if st.cont then .error "redirection syntax error" else .ok (st.toks, st.redirs)

end Cicada
