import Cicada.Model.ParserLine
/-!
# Model of the calculator (src/calculator/grammar.pest, src/calculator/mod.rs, core.rs:664-695)

* the PEG with pest's implicit whitespace, read as a recursive-descent parser producing the flat
  `term (operation term)*` sequence pest hands to the Pratt parser (parenthesised sub-expressions are
  nested flats);
* pest's Pratt loop (`pratt_parser.rs`: `expr / nud / led`, `PREC_STEP = 10`) with the table taken from
  `Generated.prattLevels` (regenerated from `calculator/mod.rs` on every run);
* `eval_int` on `Int` with explicit 64-bit wrapping; float mode is structural only.
-/
namespace Cicada.Calc
open Cicada

inductive Op | add | sub | mul | div | pow
  deriving DecidableEq, Repr

def Op.rule : Op → String
  | .add => "add" | .sub => "subtract" | .mul => "multiply" | .div => "divide" | .pow => "power"

def Op.ofChar : Char → Option Op
  | '+' => some .add | '-' => some .sub | '*' => some .mul | '/' => some .div | '^' => some .pow
  | _ => none

def Op.char : Op → Char
  | .add => '+' | .sub => '-' | .mul => '*' | .div => '/' | .pow => '^'

/-- (precedence, right-associative) of a rule in a Pratt table: level k (0-based) has precedence 10·(k+1) -/
def levelOf (table : List (List (String × String))) (rule : String) : Option (Nat × Bool) :=
  go table 1
where go : List (List (String × String)) → Nat → Option (Nat × Bool)
  | [], _ => none
  | lv :: rest, k =>
    match lv.find? (fun p => p.1 = rule) with
    | some p => some (10 * k, p.2 = "Right")
    | none => go rest (k + 1)

def prec (o : Op) : Nat := ((levelOf Generated.prattLevels o.rule).map (·.1)).getD 0
def rightAssoc (o : Op) : Bool := ((levelOf Generated.prattLevels o.rule).map (·.2)).getD false
/-- binding power handed to the recursive `expr` call for the right operand -/
def rbpOf (o : Op) : Nat := if rightAssoc o then prec o - 1 else prec o

/-! ## PEG -/

def isWsC (c : Char) : Bool := c = ' ' || c = '\t'
def skip (s : Str) : Str := s.dropWhile isWsC

/-- `int = ("+" | "-")? ~ ASCII_DIGIT+` : (matched text, rest) -/
def pInt (s : Str) : Option (Str × Str) :=
  let (sgn, r) := match s with
    | '+' :: r => (['+'], r)
    | '-' :: r => (['-'], r)
    | _ => ([], s)
  let ds := r.takeWhile isDigitA
  if ds = [] then none else some (sgn ++ ds, r.dropWhile isDigitA)

/-- `num = @{ int ~ ("." ~ ASCII_DIGIT*)? ~ (^"e" ~ int)? }` -/
def pNum (s : Str) : Option (Str × Str) :=
  match pInt s with
  | none => none
  | some (i, r) =>
    let (frac, r1) := match r with
      | '.' :: r' => ('.' :: r'.takeWhile isDigitA, r'.dropWhile isDigitA)
      | _ => ([], r)
    let (ex, r2) := match r1 with
      | c :: r' =>
        if c = 'e' ∨ c = 'E' then
          match pInt r' with
          | some (e, r'') => (c :: e, r'')
          | none => ([], r1)
        else ([], r1)
      | [] => ([], r1)
    some (i ++ frac ++ ex, r2)

mutual
inductive Term | num (text : Str) | paren (f : Flat)
inductive Flat | mk (first : Term) (rest : Tail)
inductive Tail | nil | cons (o : Op) (t : Term) (rest : Tail)
end

mutual
/-- `expr = { term ~ (operation ~ term)* }` -/
def pExpr : Nat → Str → Option (Flat × Str)
  | 0, _ => none
  | f + 1, s =>
    match pTerm f s with
    | none => none
    | some (t, r) =>
      let (rest, r') := pTail f r
      some (.mk t rest, r')
/-- `(operation ~ term)*` with the implicit skips; never fails -/
def pTail : Nat → Str → Tail × Str
  | 0, s => (.nil, s)
  | f + 1, s =>
    match skip s with
    | c :: r =>
      (match Op.ofChar c with
       | none => (.nil, s)
       | some o =>
         match pTerm f (skip r) with
         | none => (.nil, s)
         | some (t, r') =>
           let (rest, r'') := pTail f r'
           (.cons o t rest, r''))
    | [] => (.nil, s)
/-- `term = _{ num | "(" ~ expr ~ ")" }` -/
def pTerm : Nat → Str → Option (Term × Str)
  | 0, _ => none
  | f + 1, s =>
    match pNum s with
    | some (n, r) => some (.num n, r)
    | none =>
      match s with
      | '(' :: r =>
        (match pExpr f (skip r) with
         | none => none
         | some (e, r') =>
           match skip r' with
           | ')' :: r'' => some (.paren e, r'')
           | _ => none)
      | _ => none
end

/-- `calculation = _{ SOI ~ expr ~ EOI }` -/
def calculate (line : Str) : Option Flat :=
  match pExpr (2 * line.length + 2) (skip line) with
  | some (e, r) => if skip r = [] then some e else none
  | none => none

/-! ## Pratt parser -/

inductive E (α : Type) | atom (a : α) | bin (o : Op) (l r : E α)
  deriving Repr

/-- `loop fuel lhs rbp rest`: pest's `while rbp < lbp` loop; `led` calls `expr` = `loop (atom a)` -/
def loop {α} : Nat → E α → Nat → List (Op × α) → Option (E α × List (Op × α))
  | 0, _, _, _ => none
  | _ + 1, lhs, _, [] => some (lhs, [])
  | f + 1, lhs, rbp, (o, a) :: rest =>
    if rbp < prec o then
      match loop f (.atom a) (rbpOf o) rest with
      | none => none
      | some (rhs, rest') => loop f (.bin o lhs rhs) rbp rest'
    else some (lhs, (o, a) :: rest)

def pratt {α} (first : α) (rest : List (Op × α)) : Option (E α) :=
  (loop (2 * rest.length + 2) (.atom first) 0 rest).map (·.1)

/-! ## integer evaluation -/

def wrap64 (z : Int) : Int := (z + 2 ^ 63) % 2 ^ 64 - 2 ^ 63
def i64Min : Int := -(2 ^ 63)
def i64Max : Int := 2 ^ 63 - 1

/-- `str::parse::<i64>()`: optional sign, ASCII digits only, in range -/
def parseI64 (s : Str) : Option Int :=
  let (neg, ds) := match s with
    | '-' :: r => (true, r)
    | '+' :: r => (false, r)
    | _ => (false, s)
  if ds = [] ∨ !ds.all isDigitA then none else
  let n : Nat := ds.foldl (fun a c => a * 10 + (c.toNat - 48)) 0
  let z : Int := if neg then -(n : Int) else n
  if i64Min ≤ z ∧ z ≤ i64Max then some z else none

/-- square-and-multiply modulo 2^64 on the 32 bits of the exponent (fuel = number of bits) -/
def powModAux : Nat → Nat → Nat → Nat → Nat
  | 0, _, _, acc => acc
  | f + 1, b, e, acc =>
    if e = 0 then acc
    else powModAux f (b * b % 2 ^ 64) (e / 2) (if e % 2 = 1 then acc * b % 2 ^ 64 else acc)

/-- `i64::wrapping_pow`: the exact power reduced to the 64-bit two's-complement range -/
def powWrap (l : Int) (e : Nat) : Int :=
  wrap64 (Int.ofNat (powModAux 64 ((l % 2 ^ 64).toNat) e 1))

/-- one infix step of `eval_int` (calculator/mod.rs) -/
def applyOp (o : Op) (l r : Int) : Outcome Int :=
  match o with
  | .add => .ok (wrap64 (l + r))
  | .sub => .ok (wrap64 (l - r))
  | .mul => .ok (wrap64 (l * r))
  | .div =>
    if r = 0 then .ok (if l > 0 then i64Max else if l < 0 then i64Min else 0)   -- `(lhs as f64 / 0.0) as i64`
    else .ok (wrap64 (Int.tdiv l r))
  | .pow => .ok (powWrap l (r % 2 ^ 32).toNat)                                 -- `lhs.wrapping_pow(rhs as u32)`

def evalTree : E Int → Outcome Int
  | .atom v => .ok v
  | .bin o l r => (evalTree l).bind (fun a => (evalTree r).bind (fun b => applyOp o a b))

mutual
def evalTerm : Term → Outcome Int
  | .num t => match parseI64 t with
    | some z => .ok z
    | none =>
      -- out of range: `parse::<f64>() as i64` saturates.  (Exponent / fraction forms cannot reach
      -- integer mode through `is_arithmetic`; they are outside the model.)
      if (t.drop (if t.head? = some '-' ∨ t.head? = some '+' then 1 else 0)).all isDigitA then
        .ok (if t.head? = some '-' then i64Min else i64Max)
      else .err "unmodelled:float-literal-in-int-mode"
  | .paren f => evalFlat f
/-- primaries are evaluated (any failing one aborts), the Pratt loop builds the tree, the tree is folded -/
def evalFlat : Flat → Outcome Int
  | .mk first rest =>
    (evalTerm first).bind (fun v0 => (evalTail rest).bind (fun vs =>
      match pratt v0 vs with
      | none => .diverge "pratt-fuel"
      | some tree => evalTree tree))
def evalTail : Tail → Outcome (List (Op × Int))
  | .nil => .ok []
  | .cons o t rest => (evalTerm t).bind (fun v => (evalTail rest).bind (fun vs => .ok ((o, v) :: vs)))
end

/-- result of `core::run_calculator` -/
inductive CalcRes | int (z : Int) | float | syntaxError
  deriving Repr, DecidableEq

def runCalculator (line : Str) : Outcome CalcRes :=
  match calculate line with
  | none => .ok .syntaxError
  | some f =>
    if line.contains '.' then .ok .float
    else (evalFlat f).map .int

end Cicada.Calc
