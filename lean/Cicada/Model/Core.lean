import Cicada.Model.Subst
import Cicada.Model.Calc
/-!
# Model of the head of `core::run_pipeline` (core.rs:114-150, 617-695) and of builtin dispatch

What is decided before any pipe or process is created: background+capture rejection, the calculator
short-cut, function dispatch, the empty-plan rejection.  `tokens[0]` on an empty token list is a
named panic site.
-/
namespace Cicada

inductive Head
  | bgCapture
  | calcOk (z : Int)
  | calcFloat
  | calcErr
  | func (name : Str)
  | invalid
  | run (key : Str)
  deriving Repr, DecidableEq

def runPipelineHead (e : Env) (line : Str) (p : Plan) (capture : Bool) : Outcome Head :=
  if p.background ∧ capture then .ok .bgCapture
  else if isArithmetic line then
    (Calc.runCalculator line).map (fun r => match r with
      | .int z => .calcOk z
      | .float => .calcFloat
      | .syntaxError => .calcErr)
  else
    match p.commands with
    | [] => .ok .invalid
    | c :: _ =>
      match c.tokens with
      | [] => .panic "try_run_func: command.tokens[0] on an empty token list"
      | (_, name) :: _ =>
        if (lookup e.funcs name).isSome then .ok (.func name) else .ok (.run (planKey p))

/-- `tools::is_builtin` over the generated list -/
def isBuiltin (name : Str) : Bool := Generated.builtins.any (fun b => b.toList = name)
/-- is the name one of those compared in `try_run_builtin` -/
def isDispatched (name : Str) : Bool := Generated.dispatch.any (fun b => b.toList = name)

end Cicada
