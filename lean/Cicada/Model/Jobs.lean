import Cicada.Basic
/-!
# Model of the job table and of waiting (src/shell.rs:59-242, src/jobc.rs, src/signals.rs)

The kernel is a queue of pending notifications.  `waitFg` (`jobc::wait_fg_job`) consumes it from the front
until it returns; `poll` (`signals::handle_sigchld` + `jobc::try_wait_bg_jobs`) parks everything pending into
the four maps and applies at most one parked notification per process.
-/
namespace Cicada.Jobs

abbrev Pid := Nat

inductive Ev
  | exited (p : Pid) (st : Int)
  | killed (p : Pid) (sig : Int)
  | stopped (p : Pid) (sig : Int)
  | continued (p : Pid)
  deriving Repr, DecidableEq

def Ev.pid : Ev → Pid
  | .exited p _ => p | .killed p _ => p | .stopped p _ => p | .continued p => p

structure Job where
  id : Nat
  gid : Pid
  pids : List Pid
  stoppedSet : List Pid := []
  status : String := "Running"
  isBg : Bool := false
  deriving Repr, DecidableEq

structure Sh where
  /-- `sh.jobs` (a map keyed by id; kept sorted by id here) -/
  jobs : List Job := []
  reap : List (Pid × Int) := []
  kill : List (Pid × Int) := []
  stop : List Pid := []
  cont : List Pid := []
  /-- notifications the kernel has pending -/
  pending : List Ev := []
  deriving Repr

def insertSorted (j : Job) : List Job → List Job
  | [] => [j]
  | x :: xs => if j.id < x.id then j :: x :: xs else x :: insertSorted j xs

/-- `insert_job`: walk ids from 1; a job with the same gid met on the way gets the pid appended; the first
unused id gets a new job -/
def insertJobGo (s : Sh) (gid pid : Pid) (bg : Bool) : Nat → Nat → Sh
  | 0, _ => s
  | f + 1, i =>
    match s.jobs.find? (·.id = i) with
    | some j =>
      if j.gid = gid then
        { s with jobs := s.jobs.map fun x => if x.id = i then { x with pids := x.pids ++ [pid] } else x }
      else insertJobGo s gid pid bg f (i + 1)
    | none => { s with jobs := insertSorted { id := i, gid := gid, pids := [pid], isBg := bg } s.jobs }

def insertJob (s : Sh) (gid pid : Pid) (bg : Bool) : Sh := insertJobGo s gid pid bg (s.jobs.length + 1) 1

/-- the job the `loop` from i = 1 finds for a gid: lowest id -/
def findGid (s : Sh) (gid : Pid) : Option Job := s.jobs.find? (·.gid = gid)

def updJob (s : Sh) (id : Nat) (f : Job → Job) : Sh :=
  { s with jobs := s.jobs.map fun x => if x.id = id then f x else x }

/-- `remove_pid_from_job` (linear search since `fix:` e1e2870); the job is dropped when it has no pid left -/
def removePid (s : Sh) (gid pid : Pid) : Sh :=
  match findGid s gid with
  | none => s
  | some j =>
    let pids' := j.pids.erase pid
    if pids'.isEmpty then { s with jobs := s.jobs.filter (·.id ≠ j.id) }
    else updJob s j.id (fun x => { x with pids := pids' })

def Job.allStopped (j : Job) : Bool := j.pids.all (j.stoppedSet.contains ·)

/-- `jobc::mark_job_member_stopped` -/
def markMemberStopped (s : Sh) (pid gid : Pid) : Sh :=
  match findGid s gid with
  | none => s
  | some j =>
    let st := if j.stoppedSet.contains pid then j.stoppedSet else j.stoppedSet ++ [pid]
    let s1 := updJob s j.id (fun x => { x with stoppedSet := st })
    if ({ j with stoppedSet := st } : Job).allStopped then updJob s1 j.id (fun x => { x with status := "Stopped", isBg := true }) else s1

/-- `jobc::mark_job_member_continued` -/
def markMemberContinued (s : Sh) (pid gid : Pid) : Sh :=
  match findGid s gid with
  | none => s
  | some j =>
    let st := j.stoppedSet.erase pid
    let s1 := updJob s j.id (fun x => { x with stoppedSet := st })
    if st.isEmpty then updJob s1 j.id (fun x => { x with status := "Running", stoppedSet := [], isBg := true }) else s1

def addOnce (l : List Pid) (p : Pid) : List Pid := if l.contains p then l else l ++ [p]
def putMap (l : List (Pid × Int)) (p : Pid) (v : Int) : List (Pid × Int) := l.filter (·.1 ≠ p) ++ [(p, v)]

/-- status `WaitStatus::get_status` reports -/
def Ev.status : Ev → Int
  | .exited _ c => c
  | .killed _ g => g + 128
  | .stopped _ g => g + 128
  | .continued _ => 128

/-- `jobc::wait_fg_job`: returns the state and the status; the unconsumed notifications stay pending -/
def waitFgGo (gid : Pid) (pids : List Pid) : List Ev → Sh → Nat → Int → Sh × Int
  | [], s, _, st => ({ s with pending := [] }, st)           -- ECHILD
  | e :: rest, s, waited, st =>
    let pid := e.pid
    let isFg := pids.contains pid
    match e with
    | .continued _ =>
      let s := if isFg then s else { s with cont := addOnce s.cont pid }
      waitFgGo gid pids rest s waited st
    | _ =>
      let waited := if isFg then waited + 1 else waited
      let s := match e with
        | .exited _ c => if isFg then removePid s gid pid else { s with reap := putMap s.reap pid c }
        | .killed _ g => if isFg then removePid s gid pid else { s with kill := putMap s.kill pid g }
        | .stopped _ _ => if isFg then markMemberStopped s pid gid else markMemberStopped { s with stop := addOnce s.stop pid } pid 0
        | .continued _ => s
      let st := if isFg ∧ some pid = pids.getLast? then e.status else st
      if waited ≥ pids.length then ({ s with pending := rest }, st) else waitFgGo gid pids rest s waited st

def waitFg (s : Sh) (gid : Pid) (pids : List Pid) : Sh × Int :=
  if pids = [] then (s, 0) else waitFgGo gid pids s.pending s 0 0

/-- `signals::handle_sigchld`: park every pending notification -/
def park (s : Sh) : Sh :=
  s.pending.foldl (fun s e => match e with
    | .exited p c => { s with reap := putMap s.reap p c }
    | .killed p g => { s with kill := putMap s.kill p g }
    | .stopped p _ => { s with stop := addOnce s.stop p }
    | .continued p => { s with cont := addOnce s.cont p }) { s with pending := [] }

/-- `jobc::try_wait_bg_jobs`: over a snapshot of the table; per pid one parked notification, in the order
reap, kill, stop, cont -/
def applyParked (s : Sh) : Sh :=
  s.jobs.foldl (fun s job =>
    job.pids.foldl (fun s pid =>
      if s.reap.any (·.1 = pid) then removePid { s with reap := s.reap.filter (·.1 ≠ pid) } job.gid pid
      else if s.kill.any (·.1 = pid) then removePid { s with kill := s.kill.filter (·.1 ≠ pid) } job.gid pid
      else if s.stop.contains pid then markMemberStopped { s with stop := s.stop.erase pid } pid job.gid
      else if s.cont.contains pid then markMemberContinued { s with cont := s.cont.erase pid } pid job.gid
      else s) s) s

def poll (s : Sh) : Sh := if s.jobs.isEmpty then s else applyParked (park s)

inductive Op
  | launch (bg : Bool) (gid : Pid) (pids : List Pid)
  | ev (e : Ev)
  | waitFg (gid : Pid) (pids : List Pid)
  | poll
  deriving Repr

def step (s : Sh) : Op → Sh × Option Int
  | .launch bg gid pids => (pids.foldl (fun s p => insertJob s gid p bg) s, none)
  | .ev e => ({ s with pending := s.pending ++ [e] }, none)
  | .waitFg gid pids => let (s', st) := waitFg s gid pids; (s', some st)
  | .poll => (poll s, none)

end Cicada.Jobs
