import Cicada.Basic
/-!
# Model of the script grammar `src/parsers/grammar.pest` (pest PEG, implicit WHITESPACE = " " | "\t")

A character-level recursive-descent reading of the PEG with pest's semantics: ordered choice, greedy
repetition without backtracking into it, implicit `WHITESPACE*` between the elements of a sequence and
between repetitions in non-atomic rules, silent (`_`) rules producing no pair.  The result is pest's pair
tree `(rule, span, children)`.
-/
namespace Cicada.Locust

/-- pair tree -/
inductive PT where
  | node (rule : String) (text : Str) (kids : List PT)
  deriving Repr

def PT.rule : PT → String | .node r _ _ => r
def PT.text : PT → Str | .node _ t _ => t
def PT.kids : PT → List PT | .node _ _ k => k

def isWsP (c : Char) : Bool := c = ' ' || c = '\t'
def skip (s : Str) : Str := s.dropWhile isWsP

/-- NEWLINE = "\n" | "\r\n" | "\r" -/
def pNewline : Str → Option Str
  | '\n' :: r => some r
  | '\r' :: '\n' :: r => some r
  | '\r' :: r => some r
  | _ => none

def pLit (lit : Str) (s : Str) : Option Str := if startsWith s lit then some (s.drop lit.length) else none

/-- NEWLINE | EOI -/
def pNlOrEoi (s : Str) : Option Str := match pNewline s with
  | some r => some r
  | none => if s = [] then some [] else none

def kwIf (s : Str) : Option Str := pLit "if ".toList s
def kwFor (s : Str) : Option Str := pLit "for ".toList s
def kwElseIf (s : Str) : Option Str := pLit "else if ".toList s
def kwWhile (s : Str) : Option Str := pLit "while ".toList s
/-- KW_FI = "fi" ~ (NEWLINE | EOI) -/
def kwFi (s : Str) : Option Str := (pLit "fi".toList s).bind (fun r => pNlOrEoi (skip r))
def kwDone (s : Str) : Option Str := (pLit "done".toList s).bind (fun r => pNlOrEoi (skip r))
/-- KW_ELSE = { "else" ~ NEWLINE } -/
def kwElse (s : Str) : Option Str := (pLit "else".toList s).bind (fun r => pNewline (skip r))

def kwList (s : Str) : Bool :=
  (kwIf s).isSome || (kwFor s).isSome || (kwElseIf s).isSome || (kwElse s).isSome || (kwFi s).isSome ||
  (kwWhile s).isSome || (kwDone s).isSome

/-- DUMMY_DO = ";" ~ "do" ~ NEWLINE ; DUMMY_THEN = ";" ~ "then" ~ NEWLINE -/
def dummy (word : Str) (s : Str) : Option Str :=
  (pLit [';'] s).bind (fun r => (pLit word (skip r)).bind (fun r2 => pNewline (skip r2)))
def dummyDo := dummy "do".toList
def dummyThen := dummy "then".toList

/-- the span consumed between `start` and `rest` -/
def span (start rest : Str) : Str := start.take (start.length - rest.length)

/-- `(!stop ~ ANY)` repeated with the implicit skips: returns the position where the repetition stops
and the number of iterations -/
def repAny (stop : Str → Bool) : Nat → Str → Nat → Str × Nat
  | 0, s, n => (s, n)
  | f + 1, s, n =>
    -- between repetitions (n > 0) whitespace is skipped as part of the attempt
    let s1 := if n > 0 then skip s else s
    if stop s1 then (s, n) else
    match skip s1 with
    | [] => (s, n)
    | _ :: r => repAny stop f r (n + 1)

def atNewline (s : Str) : Bool := (pNewline s).isSome

/-- TEST = {(!(NEWLINE|DUMMY_THEN|DUMMY_DO) ~ ANY)+} -/
def pTest (s : Str) : Option (PT × Str) :=
  let (r, n) := repAny (fun x => atNewline x || (dummyThen x).isSome || (dummyDo x).isSome) (s.length + 1) s 0
  if n = 0 then none else some (.node "TEST" (span s r) [], r)

/-- CMD = { CMD_NORMAL | CMD_END } -/
def pCmd (s : Str) : Option (PT × Str) :=
  if kwList s then none else
  -- CMD_NORMAL = !KW_LIST ~ (!NEWLINE ~ ANY)* ~ NEWLINE
  let (r, n) := repAny atNewline (s.length + 1) (skip s) 0
  match pNewline (skip r) with
  | some r' => some (.node "CMD" (span s r') [], r')
  | none =>
    -- CMD_END = !KW_LIST ~ (!NEWLINE ~ ANY)+ ~ EOI
    if n > 0 ∧ skip r = [] then some (.node "CMD" (span s []) [], []) else none

/-- a head `KW ~ TEST ~ (DUMMY | NEWLINE)` -/
def pHead (rule : String) (kw : Str → Option Str) (dum : Str → Option Str) (s : Str) : Option (PT × Str) :=
  match kw s with
  | none => none
  | some r =>
    match pTest (skip r) with
    | none => none
    | some (t, r2) =>
      let r3 := skip r2
      match dum r3 with
      | some r4 => some (.node rule (span s r4) [t], r4)
      | none => match pNewline r3 with
        | some r4 => some (.node rule (span s r4) [t], r4)
        | none => none

/-- FOR_VAR = @{ (ASCII_ALPHA | "_") ~ (ASCII_ALPHANUMERIC | "_")* } -/
def pForVar (s : Str) : Option (PT × Str) :=
  match s with
  | c :: cs =>
    if isAlphaA c ∨ c = '_' then
      let r := cs.dropWhile (fun x => isAlphaA x || isDigitA x || x = '_')
      some (.node "FOR_VAR" (span s r) [], r)
    else none
  | [] => none

/-- FOR_HEAD = { KW_FOR ~ FOR_INIT }, FOR_INIT = { FOR_VAR ~ "in" ~ TEST ~ (DUMMY_DO|NEWLINE) } -/
def pForHead (s : Str) : Option (PT × Str) :=
  match kwFor s with
  | none => none
  | some r =>
    let i0 := skip r
    match pForVar i0 with
    | none => none
    | some (v, r1) =>
      match pLit "in".toList (skip r1) with
      | none => none
      | some r2 =>
        match pTest (skip r2) with
        | none => none
        | some (t, r3) =>
          let r4 := skip r3
          let fin : Option Str := match dummyDo r4 with
            | some x => some x
            | none => pNewline r4
          match fin with
          | none => none
          | some r5 => some (.node "FOR_HEAD" (span s r5) [.node "FOR_INIT" (span i0 r5) [v, t]], r5)

mutual
/-- EXP_BODY = { (CMD | EXP_IF | EXP_WHILE | EXP_FOR)+ } -/
def pBodyItems : Nat → Str → List PT × Str
  | 0, s => ([], s)
  | f + 1, s =>
    let s1 := s
    let one : Option (PT × Str) :=
      match pCmd s1 with
      | some x => some x
      | none => match pIf f s1 with
        | some x => some x
        | none => match pWhile f s1 with
          | some x => some x
          | none => pFor f s1
    match one with
    | none => ([], s)
    | some (t, r) =>
      -- between repetitions: skip whitespace, then try again
      let (ts, r') := pBodyItems f (skip r)
      if ts = [] then ([t], r) else (t :: ts, r')

def pBody : Nat → Str → Option (PT × Str)
  | 0, _ => none
  | f + 1, s =>
    let (ts, r) := pBodyItems f s
    if ts = [] then none else some (.node "EXP_BODY" (span s r) ts, r)

/-- `HEAD ~ EXP_BODY` -/
def pBranch : Nat → String → (Str → Option (PT × Str)) → Str → Option (PT × Str)
  | 0, _, _, _ => none
  | f + 1, rule, head, s =>
    match head s with
    | none => none
    | some (h, r) =>
      match pBody f (skip r) with
      | none => none
      | some (b, r2) => some (.node rule (span s r2) [h, b], r2)

/-- IF_ELSEIF_BR* -/
def pElseIfs : Nat → Str → List PT × Str
  | 0, s => ([], s)
  | f + 1, s =>
    match pBranch f "IF_ELSEIF_BR" (pHead "IF_ELSEIF_HEAD" kwElseIf dummyThen) (skip s) with
    | none => ([], s)
    | some (b, r) =>
      let (bs, r') := pElseIfs f r
      (b :: bs, r')

/-- EXP_IF = { SOI? ~ IF_IF_BR ~ IF_ELSEIF_BR* ~ IF_ELSE_BR? ~ KW_FI } -/
def pIf : Nat → Str → Option (PT × Str)
  | 0, _ => none
  | f + 1, s =>
    match pBranch f "IF_IF_BR" (pHead "IF_HEAD" kwIf dummyThen) (skip s) with
    | none => none
    | some (b1, r1) =>
      let (bs, r2) := pElseIfs f r1
      -- IF_ELSE_BR = { KW_ELSE ~ EXP_BODY }
      let r2s := skip r2
      let (els, r3) : List PT × Str :=
        match kwElse r2s with
        | none => ([], r2)
        | some re =>
          match pBody f (skip re) with
          | none => ([], r2)
          | some (b, rb) => ([.node "IF_ELSE_BR" (span r2s rb) [.node "KW_ELSE" (span r2s re) [], b]], rb)
      match kwFi (skip r3) with
      | none => none
      | some r4 => some (.node "EXP_IF" (span s r4) ([b1] ++ bs ++ els), r4)

/-- EXP_WHILE = { SOI? ~ WHILE_HEAD ~ EXP_BODY ~ KW_DONE } -/
def pWhile : Nat → Str → Option (PT × Str)
  | 0, _ => none
  | f + 1, s =>
    match pHead "WHILE_HEAD" kwWhile dummyDo (skip s) with
    | none => none
    | some (h, r) =>
      match pBody f (skip r) with
      | none => none
      | some (b, r2) =>
        match kwDone (skip r2) with
        | none => none
        | some r3 => some (.node "EXP_WHILE" (span s r3) [h, b], r3)

/-- EXP_FOR = { SOI? ~ FOR_HEAD ~ EXP_BODY ~ KW_DONE } -/
def pFor : Nat → Str → Option (PT × Str)
  | 0, _ => none
  | f + 1, s =>
    match pForHead (skip s) with
    | none => none
    | some (h, r) =>
      match pBody f (skip r) with
      | none => none
      | some (b, r2) =>
        match kwDone (skip r2) with
        | none => none
        | some r3 => some (.node "EXP_FOR" (span s r3) [h, b], r3)
end

/-- EXP = { (EXP_IF | EXP_FOR | EXP_WHILE | CMD)* }: stops silently where nothing fits -/
def pTop : Nat → Str → List PT × Str
  | 0, s => ([], s)
  | f + 1, s =>
    let one : Option (PT × Str) :=
      match pIf f s with
      | some x => some x
      | none => match pFor f s with
        | some x => some x
        | none => match pWhile f s with
          | some x => some x
          | none => pCmd s
    match one with
    | none => ([], s)
    | some (t, r) =>
      if r.length < s.length then
        let (ts, r') := pTop f (skip r)
        if ts = [] then ([t], r) else (t :: ts, r')
      else ([t], r)

def parseFuel (text : Str) : Nat := 2 * text.length + 4

/-- `locust::parse_lines`: `EXP = { (…)* ~ EOI }` — `none` is pest's parse error (something is left that
no rule can place: unbalanced block keywords) -/
def parseLines (text : Str) : Option PT :=
  let (ts, r) := pTop (parseFuel text) text
  if skip r = [] then some (.node "EXP" text ts) else none

end Cicada.Locust
