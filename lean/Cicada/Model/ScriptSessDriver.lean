import Cicada.Model.ScriptSess
import Cicada.Codec
/-!
# Wire format of the `ssess` stream (scripts with functions / source / exit / set -e; serves C15)

files: `name=stmt;stmt;…|name=…` with stmt `g.K.S` (stage), `c.<hexname>` (call), `s.<hexfile>` (source), `x.N` (exit), `e` (set -e),
`d.<hexname>.stmt+stmt+…` (function definition; body statements use `,` instead of `.`)
-/
namespace Cicada.ScriptSess
open Cicada.Codec

def parseSimple (sep : String) (s : String) : Option SStmt :=
  match s.splitOn sep with
  | ["g", k, c] => some (.stage (k.toNat?.getD 0) (c.toNat?.getD 0))
  | ["c", f] => some (.call (unhex f))
  | ["s", f] => some (.source (unhex f))
  | ["x", n] => some (.exit (n.toNat?.getD 0))
  | ["e"] => some .sete
  | _ => none

def parseStmt (s : String) : Option SStmt :=
  match s.splitOn "." with
  | ["d", f, body] => some (.defn (unhex f) (((body.splitOn "+").filter (· ≠ "")).filterMap (parseSimple ",")))
  | _ => parseSimple "." s

def parseFiles (s : String) : List (Str × List SStmt) :=
  ((s.splitOn "|").filter (· ≠ "")).filterMap (fun f => match f.splitOn "=" with
    | [n, body] => some (unhex n, ((body.splitOn ";").filter (· ≠ "")).filterMap parseStmt)
    | _ => none)

def showRun (r : Nat × List (Nat × Nat)) : String :=
  s!"rc={r.1}|trace={",".intercalate (r.2.map (fun (k, c) => s!"{k}:{c}"))}"

/-- does the session use `set -e` together with `source` (the open finding's class) -/
def usesSeteAndSource (files : List (Str × List SStmt)) : Bool :=
  let all := files.flatMap (·.2)
  let flat := all ++ all.flatMap (fun s => match s with | .defn _ b => b | _ => [])
  flat.any (fun s => match s with | .sete => true | _ => false) && flat.any (fun s => match s with | .source _ => true | _ => false)

structure Out where
  m : String
  s : String
  cls : String

def run (files : String) (main : String) : Out :=
  let fs := parseFiles files
  let m := showRun (runMain {} fs (unhex main))
  let sp := showRun (runMain { clearAfterSource := false } fs (unhex main))
  { m := m, s := sp, cls := if m = sp then "-" else if usesSeteAndSource fs then "sete-inside-sourced-file" else "other" }

end Cicada.ScriptSess
