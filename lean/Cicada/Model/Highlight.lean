import Cicada.Model.ParserLine
import Cicada.Generated
/-!
# Model of the interactive highlighter (src/highlight.rs:100-213): which byte ranges of the line are styled

Positions are kept as (bytes consumed, rest of the line): every position the code computes is obtained by stepping over
whole characters (prefix matches, `char_indices`), so byte offsets are sums of UTF-8 lengths of consumed characters.
The quirk of `find_token_range_heuristic` is modelled as written: the BYTE offset of the first non-blank character is
used as a CHARACTER index (`char_indices().nth(offset)`), which differs when the leading white space is multi-byte.
-/
namespace Cicada.Highlight

def utf8Len (c : Char) : Nat := c.utf8Size

/-- Rust's `char::is_whitespace` (Unicode White_Space) -/
def isWsU (c : Char) : Bool :=
  let n := c.toNat
  (9 ≤ n && n ≤ 13) || n = 32 || n = 0x85 || n = 0xA0 || n = 0x1680 || (0x2000 ≤ n && n ≤ 0x200A) || n = 0x2028 || n = 0x2029 ||
  n = 0x202F || n = 0x205F || n = 0x3000
def byteLen (s : Str) : Nat := (s.map utf8Len).sum

/-- `find_token_range_heuristic`: `none` = the token could not be mapped back.  Input: the rest of the line from the
current position; output: (bytes skipped before the token, bytes of the token, rest after the token) -/
def findToken (area : Str) (sep word : Str) : Option (Nat × Nat × Str) :=
  -- byte offset of the first non-white-space character
  let ws := area.takeWhile isWsU
  if ws.length = area.length then none else
  let off := byteLen ws
  -- … used as a character index: `char_indices().nth(off)`, byte index 0 when there is no such character
  let skipChars := if off < area.length then off else 0
  let skipped := area.take skipChars
  let a := area.drop skipChars
  let afterSep := if sep ≠ [] ∧ startsWith a sep then a.drop sep.length else a
  let sepLen := if sep ≠ [] ∧ startsWith a sep then byteLen sep else 0
  if startsWith afterSep word then
    let r := afterSep.drop word.length
    let tail := if sep ≠ [] ∧ startsWith r sep then byteLen sep else 0
    let len := sepLen + byteLen word + tail
    some (byteLen skipped, len, dropBytes a len)
  else if word = [] ∧ sep ≠ [] ∧ startsWith a sep ∧ startsWith (a.drop sep.length) sep then
    some (byteLen skipped, sepLen + 2 * byteLen sep, dropBytes a (sepLen + 2 * byteLen sep))
  else if startsWith a word then some (byteLen skipped, byteLen word, a.drop word.length)
  else none
where
  /-- the rest after `n` bytes (always a character boundary here) -/
  dropBytes : Str → Nat → Str
    | s, 0 => s
    | [], _ => []
    | c :: cs, n => if utf8Len c ≤ n then dropBytes cs (n - utf8Len c) else c :: cs

def isSegEnd (w : Str) : Bool := w = ['|'] || w = ['&', '&'] || w = ['|', '|'] || w = [';']

/-- `tools::is_builtin` (the command cache and the alias set are empty in the harness) -/
def isCommand (w : Str) : Bool := Generated.builtins.contains (String.ofList w)

/-- the loop over the tokens: ranges as (start, end, styled-as-command) -/
def ranges : List Tok → Str → Nat → Bool → List (Nat × Nat × Bool)
  | [], rest, pos, _ => if rest ≠ [] then [(pos, pos + byteLen rest, false)] else []
  | (sep, word) :: ts, rest, pos, segStart =>
    match findToken rest sep word with
    | none => if rest ≠ [] then [(pos, pos + byteLen rest, false)] else []
    | some (skip, len, rest') =>
      let pre := if skip > 0 then [(pos, pos + skip, false)] else []
      let green := segStart && word ≠ [] && isCommand word
      let segStart' := if isSegEnd word then true else if segStart && word ≠ [] then false else segStart
      pre ++ [(pos + skip, pos + skip + len, green)] ++ ranges ts rest' (pos + skip + len) segStart'

/-- `CicadaHighlighter::highlight` -/
def highlight (line : Str) : List (Nat × Nat × Bool) :=
  if line = [] then [] else
  let toks := parseLine line
  if toks = [] then [(0, byteLen line, false)] else ranges toks line 0 true

def render (rs : List (Nat × Nat × Bool)) : String :=
  if rs = [] then "[]" else ",".intercalate (rs.map (fun (a, b, g) => s!"{a}-{b}:{if g then 1 else 0}"))

end Cicada.Highlight
