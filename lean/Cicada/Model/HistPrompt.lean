import Cicada.Model.History
import Cicada.Model.Prompt
/-!
# The prompt loop's recording of submitted lines (src/main.rs:150-174)

```
let line = trim_multiline_prompts(&line);            // identity on one-line input
if line.trim() == "" { …; continue; }
sh.cmd = line.clone();
extend_bangbang(&sh, &mut line);                      // `!!` replaced by sh.previous_cmd
… run_command_line(line) …
if !sh.cmd.starts_with(' ') && line != sh.previous_cmd {
    history::add(&sh, &mut rl, &line, …);             // add_raw stores line.trim()
    sh.previous_cmd = line.clone();
}
```
State: the table and `sh.previous_cmd` ("" when the shell starts).
-/
namespace Cicada.Hist

structure PSt where
  db : Db := {}
  previous : Str := []
  deriving Repr

/-- one line typed at the prompt in directory `dir` -/
def promptStep (dir : Str) (s : PSt) (typed : Str) : PSt :=
  if trim typed = [] then s else
  let line := extendBangbang s.previous typed
  if shouldRecord typed line s.previous then { db := add s.db line dir, previous := line } else s

def promptSession (dir : Str) (lines : List Str) : PSt := lines.foldl (promptStep dir) {}

/-! ## reference semantics: what the statement says is stored -/

/-- drop every element equal to the one kept just before it -/
def dedupFrom (prev : Option Str) : List Str → List Str
  | [] => []
  | x :: r => if some x = prev then dedupFrom prev r else x :: dedupFrom (some x) r

/-- "every submitted line is stored once, verbatim, in submission order; lines starting with a space and immediate
repeats are not recorded" (a blank line is not a submission) -/
def specRecorded (lines : List Str) : List Str :=
  dedupFrom none (lines.filter (fun l => trim l ≠ [] && l.head? ≠ some ' '))

end Cicada.Hist
