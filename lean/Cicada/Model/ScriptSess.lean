import Cicada.Basic
/-!
# Scripts with functions, `source`, `exit` and `set -e` (src/scripting.rs `run_script` / `run_lines`,
src/core.rs `try_run_func`, src/builtins/{source,exit,set}.rs)

A script file is a list of statements; commands are helper invocations that log a marker and return a programmed
status.  `runFile` follows `run_script`: the function definitions of the file are registered first (wherever they
stand), the remaining lines are run in order, the status is the last command's, and — the work-around at the end of
`run_script` — `exit_on_error` is switched off when the file is done; the `source` builtin then restores the value
that was in effect before the file ran (so a `set -e` issued *inside* a sourced file does not outlive that file).
-/
namespace Cicada.ScriptSess

inductive SStmt where
  /-- an external command that logs `k` and returns status `s` -/
  | stage (k s : Nat)
  | call (f : Str)
  | source (file : Str)
  | exit (n : Nat)
  | sete
  /-- `function f { … }`: the body holds no definitions -/
  | defn (f : Str) (body : List SStmt)

structure St where
  funcs : List (Str × List SStmt) := []
  sete : Bool := false
  trace : List (Nat × Nat) := []
  exited : Option Nat := none

def setFunc (fs : List (Str × List SStmt)) (f : Str) (b : List SStmt) : List (Str × List SStmt) :=
  fs.filter (·.1 ≠ f) ++ [(f, b)]

def isDefn : SStmt → Bool
  | .defn _ _ => true
  | _ => false

/-- `clearAfterSource`: the snapshot's behaviour (true) or the reference behaviour (false: `set -e` holds until the
script itself ends) -/
structure Cfg where
  clearAfterSource : Bool := true
  /-- seeded variants may clear the flag after a function call too; the code does not -/
  clearAfterCall : Bool := false

mutual
/-- run statements in order; stops after `exit`, and after a failing command when `set -e` is in effect.
Returns the state and the status of the last command run -/
def runStmts (cfg : Cfg) (files : List (Str × List SStmt)) : Nat → List SStmt → St → Nat → St × Nat
  | 0, _, st, last => (st, last)
  | _ + 1, [], st, last => (st, last)
  | f + 1, s :: rest, st, last =>
    if st.exited.isSome then (st, last) else
    let (st1, status) : St × Nat :=
      match s with
      | .stage k c => ({ st with trace := st.trace ++ [(k, c)] }, c)
      | .sete => ({ st with sete := true }, 0)
      | .exit n => ({ st with exited := some n }, n)
      | .defn _ _ => (st, last)
      | .call fn =>
        (match st.funcs.find? (·.1 = fn) with
         | some (_, body) =>
           let (st', stt) := runStmts cfg files f body st 0
           (if cfg.clearAfterCall then { st' with sete := false } else st', stt)
         | none => (st, 127))
      | .source file =>
        -- the `source` builtin restores the flag that was in effect before the file ran (since `fix:` "source no longer switches off set -e")
        let (st', stt) := runFile cfg files f file st
        (if cfg.clearAfterSource then { st' with sete := st.sete } else st', stt)
    if st1.exited.isSome then (st1, status)
    else if status ≠ 0 ∧ st1.sete then (st1, status)
    else runStmts cfg files f rest st1 status

/-- `run_script` on a file of the session -/
def runFile (cfg : Cfg) (files : List (Str × List SStmt)) : Nat → Str → St → St × Nat
  | 0, _, st => (st, 1)
  | f + 1, name, st =>
    match files.find? (·.1 = name) with
    | none => (st, 1)
    | some (_, stmts) =>
      let funcs := stmts.foldl (fun fs s => match s with | .defn fn b => setFunc fs fn b | _ => fs) st.funcs
      let (st1, status) := runStmts cfg files f (stmts.filter (fun s => !isDefn s)) { st with funcs := funcs } 0
      (if cfg.clearAfterSource then { st1 with sete := false } else st1, status)
end

/-- what is observed of `cicada main-file`: the exit status and the markers logged -/
def runMain (cfg : Cfg) (files : List (Str × List SStmt)) (main : Str) : Nat × List (Nat × Nat) :=
  let (st, status) := runFile cfg files 64 main {}
  (match st.exited with | some n => n % 256 | none => status, st.trace)

end Cicada.ScriptSess
