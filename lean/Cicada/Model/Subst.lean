import Cicada.Model.Types
/-!
# Model of command substitution and `do_expansion` (shell.rs:815-1009), `CommandLine::from_line`

Running the inner command is abstracted: `Env.cmdOut` maps the *planned* command (its argv texts,
stages joined by ` | `) to what it prints on stdout; whether `CommandLine::from_line` accepts the inner
text is computed by the model itself (recursively, hence the fuel).
-/
namespace Cicada

/-- `\$\([^\)]+\)` occurs -/
def reDollarParen : Str → Bool
  | [] => false
  | c :: cs =>
    (c = '$' && (match cs with
      | '(' :: r => (r.takeWhile (· ≠ ')')) ≠ [] && (r.dropWhile (· ≠ ')')) ≠ []
      | _ => false)) || reDollarParen cs

def afterDollarParenOk (s : Str) : Bool :=
  let body := s.takeWhile (· ≠ ')')
  match s.dropWhile (· ≠ ')') with
  | [] => false
  | _ :: rest => body ≠ [] && rest.getLast? = some '\'' && noNl rest

def scanQuotedSubst : Str → Bool
  | [] => false
  | c :: cs => (c = '$' && cs.head? = some '(' && afterDollarParenOk (cs.drop 1)) || (c ≠ '\n' && scanQuotedSubst cs)

/-- `='.*\$\([^\)]+\).*'$` occurs -/
def reQuotedAssignWithSubst : Str → Bool
  | [] => false
  | c :: cs =>
    (c = '=' && (match cs with
      | '\'' :: r => scanQuotedSubst r
      | _ => false)) || reQuotedAssignWithSubst cs

/-- `should_do_dollar_command_extension` (shell.rs:815-818) -/
def shouldDoDollar (t : Str) : Bool := reDollarParen t && !reQuotedAssignWithSubst t

/-- index of the last `)` in `seg` (the part of the line after `$(`), if it is ≥ 1 -/
def lastParen (seg : Str) : Option Nat :=
  let idxs := (List.range seg.length).filter (fun i => seg.getD i ' ' = ')')
  match idxs.getLast? with
  | some i => if i ≥ 1 then some i else none
  | none => none

/-- leftmost `\$\((.+)\)`: returns (prefix before `$(`, group, text after the closing `)`) -/
def findDollarGroup : Str → Str → Option (Str × Str × Str)
  | _, [] => none
  | acc, c :: cs =>
    let here : Option (Str × Str × Str) :=
      if c = '$' then
        match cs with
        | '(' :: r =>
          let seg := r.takeWhile (· ≠ '\n')
          (match lastParen seg with
           | some i => some (acc, seg.take i, r.drop (i + 1))
           | none => none)
        | _ => none
      else none
    match here with
    | some x => some x
    | none => findDollarGroup (acc ++ [c]) cs

/-- text of a planned command line: argv texts joined by blanks, stages by ` | ` (key of `cmdOut`) -/
def planKey (p : Plan) : Str :=
  joinWith " | ".toList (p.commands.map (fun c => joinWith [' '] (c.tokens.map (·.2))))

structure SubstEnv where
  env : Env
  /-- stdout of a planned command -/
  cmdOut : Str → Str

/-- the last maximal run of non-`$` characters of `s` : (before, run) -/
def splitLastNonDollarRun (s : Str) : Str × Str :=
  let run := (s.reverse.takeWhile (· ≠ '$')).reverse
  (s.take (s.length - run.length), run)

/-- `Regex::replace` with `(?P<head>[^\$]*)\$\(.+\)(?P<tail>.*)` and a closure that concatenates head, output
and tail (no template interpretation of the output) -/
def spliceDollar (line out : Str) : Str :=
  match findDollarGroup [] line with
  | none => line
  | some (pre, _, post) =>
    -- `pre` = everything before `$(`: the match starts at the last maximal run of non-`$` characters of it
    pre ++ out ++ post

/-- `^([^`]*)`([^`]+)`(.*)$` -/
def matchBackquote (t : Str) : Option (Str × Str × Str) :=
  let h := t.takeWhile (· ≠ '`')
  match t.dropWhile (· ≠ '`') with
  | [] => none
  | _ :: r =>
    let body := r.takeWhile (· ≠ '`')
    match r.dropWhile (· ≠ '`') with
    | [] => none
    | _ :: tl => if body ≠ [] ∧ noNl tl then some (h, body, tl) else none

mutual
/-- run an inner command text: `none` = `from_line` failed (diagnostic), else trimmed stdout.
`Outcome` carries divergence/panic of the nested expansion. -/
def runInner (se : SubstEnv) : Nat → Str → Outcome (Option Str)
  | 0, _ => .diverge "fuel"
  | f + 1, cmd =>
    match planOf se f cmd with
    | .ok (.ok p) => .ok (some (trim (se.cmdOut (planKey p))))
    | .ok (.error _) => .ok none
    | .err k => .err k
    | .panic s => .panic s
    | .diverge s => .diverge s

/-- the `$(…)` rewrite loop on one token (shell.rs:832-880); `none` = the whole pass returns early -/
def substDollarLoop (se : SubstEnv) : Nat → Str → Outcome (Option Str)
  | 0, _ => .diverge "subst-dollar-loop"
  | f + 1, line =>
    if !shouldDoDollar line then .ok (some line) else
    match findDollarGroup [] line with
    | none => .ok none
    | some (_, cmd, _) =>
      match runInner se f cmd with
      | .ok r => substDollarLoop se f (spliceDollar line (r.getD []))   -- a rejected command prints nothing
      | .err k => .err k
      | .panic s => .panic s
      | .diverge s => .diverge s

/-- the embedded-backquote loop on one token (shell.rs): (item so far, rest of the token) -/
def substDotLoop (se : SubstEnv) : Nat → Str → Str → Outcome Str
  | 0, _, _ => .diverge "subst-dot-loop"
  | f + 1, item, tok =>
    match matchBackquote tok with
    | none => .ok (item ++ tok)
    | some (h, body, tl) =>
      match runInner se f body with
      | .ok r =>
        let out := r.getD []
        if tl = [] then .ok (item ++ h ++ out) else substDotLoop se f (item ++ h ++ out) tl
      | .err k => .err k
      | .panic s => .panic s
      | .diverge s => .diverge s

/-- `do_command_substitution_for_dot`: returns the updates `(index, text)` in order -/
def substDotGo (se : SubstEnv) : Nat → Nat → List Tok → Outcome (List (Nat × Str))
  | 0, _, _ => .diverge "fuel"
  | _ + 1, _, [] => .ok []
  | f + 1, idx, (sep, tok) :: rest =>
    if sep = ['`'] then
      match runInner se f tok with
      | .ok r => (substDotGo se f (idx + 1) rest).map (fun u => (idx, r.getD []) :: u)
      | .err k => .err k
      | .panic s => .panic s
      | .diverge s => .diverge s
    else if sep = ['"'] ∨ sep = [] then
      match matchBackquote tok with
      | none => substDotGo se f (idx + 1) rest
      | some _ =>
        (substDotLoop se f [] tok).bind (fun item =>
          (substDotGo se f (idx + 1) rest).map (fun u => (idx, item) :: u))
    else substDotGo se f (idx + 1) rest

/-- `do_command_substitution_for_dollar`: `none` = early return (nothing applied) -/
def substDollarGo (se : SubstEnv) : Nat → Nat → List Tok → Outcome (Option (List (Nat × Str)))
  | 0, _, _ => .diverge "fuel"
  | _ + 1, _, [] => .ok (some [])
  | f + 1, idx, (sep, tok) :: rest =>
    if sep = ['\''] ∨ sep = ['\\'] ∨ !shouldDoDollar tok then substDollarGo se f (idx + 1) rest
    else
      (substDollarLoop se f tok).bind (fun r => match r with
        | none => .ok none
        | some line => (substDollarGo se f (idx + 1) rest).map (fun u => u.map (fun u => (idx, line) :: u)))

/-- `do_expansion` (shell.rs:993-1009) -/
def doExpansion (se : SubstEnv) : Nat → List Tok → Outcome (List Tok)
  | 0, _ => .diverge "fuel"
  | f + 1, ts =>
    if isArithmetic (tokensToLine ts) then .ok ts
    else if ts.length ≥ 2 ∧ (ts.getD 0 ([], [])).2 = "export".toList ∧ startsWith (ts.getD 1 ([], [])).2 "PROMPT=".toList then .ok ts
    else
      let t1 := expandHome se.env (expandAlias se.env ts)
      let t2 := expandEnv se.env t1
      (expandBrace t2).bind (fun t3 =>
      let t4 := expandGlob se.env t3
      (substDotGo se f 0 t4).bind (fun u1 =>
      let t5 := applyUpdates t4 u1
      (substDollarGo se f 0 t5).bind (fun u2 =>
      let t6 := match u2 with
        | none => t5
        | some u => applyUpdates t5 u
      .ok (expandBraceRange t6))))
where
  applyUpdates (ts : List Tok) (us : List (Nat × Str)) : List Tok :=
    us.foldl (fun acc (i, text) => match acc[i]? with
      | some (sep, _) => acc.set i (sep, text)
      | none => acc) ts

/-- `CommandLine::from_line` (types.rs:356-387) -/
def planOf (se : SubstEnv) : Nat → Str → Outcome (Except String Plan)
  | 0, _ => .diverge "fuel"
  | f + 1, line => (doExpansion se f (parseLine line)).map planOfTokens
end

/-- fuel used by the driver and the theorems' statements: nesting depth of substitutions is bounded by the line length -/
def planFuel (line : Str) : Nat := 8 * line.length + 64

end Cicada
