import Cicada.Model.Pipeline
import Cicada.Generated
import Cicada.Codec
/-!
# Sessions of commands over the descriptor world: what the helper programs observe

A session is a list of items run by one shell one after the other.  Each pipeline is *launched* (by the model of
`run_pipeline`, or by the reference semantics of `Spec/Fd.lean`), which yields the table every stage starts
with; this file then plays the helper program `fdstage` (helpers/fdstage.c) on those tables: it records the
table, reads its stdin, writes its marker lines to whatever descriptors 1 and 2 are, exits with the
programmed status.  The result is the list of observations the process-level harness collects from the side
files, in the same text.  Nothing here is about cicada: it is the world the two launchers are compared in.
-/
namespace Cicada.FdSession
open Cicada.Kernel Cicada.Pipeline

inductive Item where
  | plain (line : Str)
  /-- `outer$(inner)`: the captured text is glued to the end of `outer` -/
  | subst (outer inner : Str)

/-- how one pipeline was started -/
structure Launch where
  shell : Table
  np : Nat
  failed : Bool := false
  children : List (Nat × ChildEnd × List (Str × Nat)) := []
  fed : List (Nat × Str) := []
  /-- the stage whose status is the pipeline's (`none`: status 0) -/
  statusFrom : Option Nat := none
  /-- the last stage could not be started: the status is 1 -/
  lastFailed : Bool := false
  capOut : Option Nat := none

/-- the two things a launcher must provide: starting a pipeline, and a builtin that is the whole line printing
one text to stdout (`err = false`) or stderr -/
structure Launcher where
  pipeline : Cfg → List Command → (capture bg : Bool) → Table → Nat → Launch
  print : Cfg → List Redir → (err : Bool) → Table → Printed

structure World where
  shell : Table
  np : Nat := 0
  lim : Nat := 1024
  files : List (Str × List Str) := []
  pipesC : List (Nat × List Str) := []
  out : List Str := []
  err : List Str := []
  stdinLeft : List Str := []
  status : Nat := 0
  aliasDefined : Bool := false
  obs : List String := []
  unmodelled : Bool := false

def hexStr (s : Str) : String := Cicada.Codec.hex s

def showObj : Obj → String
  | .inh n => s!"i{n}"
  | .pipeR k => s!"pr{k}"
  | .pipeW k => s!"pw{k}"
  | .file p m => s!"f{m}:{hexStr p}"

def showTable (t : Table) : String :=
  ",".intercalate ((t.toList 64).map (fun (fd, e) => s!"{fd}={showObj e.obj}"))

def setAssoc {α β} [DecidableEq α] (l : List (α × β)) (k : α) (v : β) : List (α × β) :=
  if l.any (·.1 = k) then l.map (fun (a, b) => if a = k then (a, v) else (a, b)) else l ++ [(k, v)]

def getAssoc {α β} [DecidableEq α] (l : List (α × β)) (k : α) (d : β) : β :=
  match l.find? (·.1 = k) with
  | some (_, v) => v
  | none => d

def World.note (w : World) (s : String) : World := { w with obs := w.obs ++ [s] }

/-- append a line to whatever the object is -/
def World.writeTo (w : World) (o : Option Obj) (line : Str) : World :=
  match o with
  | some (.inh 1) => { w with out := w.out ++ [line] }
  | some (.inh 2) => { w with err := w.err ++ [line] }
  | some (.pipeW k) => { w with pipesC := setAssoc w.pipesC k (getAssoc w.pipesC k [] ++ [line]) }
  | some (.file p m) => if m = 0 then w else { w with files := setAssoc w.files p (getAssoc w.files p [] ++ [line]) }
  | _ => w

/-- read everything the object still holds -/
def World.readAll (w : World) (o : Option Obj) : World × List Str :=
  match o with
  | some (.inh 0) => ({ w with stdinLeft := [] }, w.stdinLeft)
  | some (.pipeR k) => ({ w with pipesC := setAssoc w.pipesC k [] }, getAssoc w.pipesC k [])
  | some (.file p 0) => (w, getAssoc w.files p [])
  | _ => (w, [])

/-- opening with truncation empties the file, opening for append creates it -/
def World.applyOpens (w : World) (ops : List (Str × Nat)) : World :=
  ops.foldl (fun w (p, m) =>
    if m = 1 then { w with files := setAssoc w.files p [] }
    else if m = 2 then { w with files := setAssoc w.files p (getAssoc w.files p []) }
    else w) w

/-- the shell's own diagnostics (`cicada: …`) are never compared -/
def noDiag (ls : List Str) : List Str := ls.filter (fun l => !(String.ofList l).startsWith "cicada:")

/-- `seed_of` of helpers/fdstage.c -/
def seedOf (tag : Str) : Nat := tag.foldl (fun s c => (s * 31 + c.toNat) % 256) 7

def natOfStr (s : Str) : Nat := s.foldl (fun n c => if c.isDigit then n * 10 + (c.toNat - 48) else n) 0

/-- `fdstage <tag> op…` started with table `t`; `shellT` is the shell's table while it waits.
State: (world, has stdin been read, exit status, done) -/
def helperOps (tag : Str) (t shellT : Table) : List Str → World × Bool × Nat → World × Nat
  | [], (w, _, st) => (w, st)
  | op :: rest, (w, rd, st) =>
    match op with
    | 'P' :: _ => helperOps tag t shellT rest (w.note s!"P:{String.ofList tag}:{showTable shellT}", rd, st)
    | 'S' :: v => helperOps tag t shellT rest (w.note s!"S:{String.ofList tag}:{String.ofList v}", rd, st)
    -- `G`: the disposition of SIGPIPE the program starts with: always the default (the shell never leaves it ignored)
    | 'G' :: _ => helperOps tag t shellT rest (w.note s!"S:{String.ofList tag}:dfl", rd, st)
    | 'R' :: _ =>
      let (w1, ls) := if rd then (w, []) else w.readAll ((t 0).map (·.obj))
      helperOps tag t shellT rest (w1.note s!"I:{String.ofList tag}:{",".intercalate ((noDiag ls).map hexStr)}", true, st)
    | 'F' :: _ =>
      let (w1, ls) := if rd then (w, []) else w.readAll ((t 0).map (·.obj))
      let w2 := ls.foldl (fun w l => w.writeTo ((t 1).map (·.obj)) l) w1
      helperOps tag t shellT rest (w2.note s!"I:{String.ofList tag}:{",".intercalate ((noDiag ls).map hexStr)}", true, st)
    | 'w' :: v =>
      -- `w<N>`: N pattern bytes, written as one pseudo-line naming the pattern (seed from the tag) and its length
      helperOps tag t shellT rest (w.writeTo ((t 1).map (·.obj)) ("#blob:".toList ++ (toString (seedOf tag)).toList ++ [':'] ++ (toString (natOfStr v)).toList), rd, st)
    | 'c' :: _ =>
      -- silent copy of stdin to stdout
      let (w1, ls) := if rd then (w, []) else w.readAll ((t 0).map (·.obj))
      helperOps tag t shellT rest (ls.foldl (fun w l => w.writeTo ((t 1).map (·.obj)) l) w1, true, st)
    | 'r' :: _ =>
      let (w1, ls) := if rd then (w, []) else w.readAll ((t 0).map (·.obj))
      helperOps tag t shellT rest (w1.note s!"D:{String.ofList tag}:{",".intercalate ((noDiag ls).map hexStr)}", true, st)
    | 'f' :: _ =>
      let (w1, ls) := if rd then (w, []) else w.readAll ((t 0).map (·.obj))
      let w2 := ls.foldl (fun w l => w.writeTo ((t 1).map (·.obj)) l) w1
      helperOps tag t shellT rest (w2.note s!"D:{String.ofList tag}:{",".intercalate ((noDiag ls).map hexStr)}", true, st)
    | 'W' :: v => helperOps tag t shellT rest (w.writeTo ((t 1).map (·.obj)) v, rd, st)
    | 'E' :: v => helperOps tag t shellT rest (w.writeTo ((t 2).map (·.obj)) v, rd, st)
    | 'x' :: 's' :: v => (w, 128 + natOfStr v)
    | 'x' :: v => (w, natOfStr v % 256)
    | _ => helperOps tag t shellT rest (w, rd, st)

def isFdstage (name : Str) : Bool :=
  name = "fdstage".toList ∨ (String.ofList name).endsWith "/fdstage"

/-- `source sN.sh`: the file holds the one line `fdstage sN` (harness convention); the tag of the helper it starts -/
def srcTag (a : Str) : Option Str :=
  if a.length > 3 ∧ a.drop (a.length - 3) = ".sh".toList then some (a.take (a.length - 3)) else none

def fdstageCmd (tag : Str) : Command :=
  { tokens := [([], "fdstage".toList), ([], tag)], redirectsTo := [], redirectFrom := none }

/-- a builtin that runs in a forked stage writes to descriptors 1 / 2 of the stage's table.
`launch1 t cmd`: the table a program started from a shell whose own table is `t` begins with (`source` inside a forked
stage starts its commands from the stage's table) -/
def builtinInChild (launch1 : Table → Command → Option Table) (shellT : Table) (w : World) (argv : List Str) (t : Table) (lim : Nat) : World × Nat :=
  match argv with
  | [n] =>
    if n = "minfd".toList then
      match t.lowestFree lim with
      | some d => (w.writeTo ((t 1).map (·.obj)) (toString d).toList, 0)
      | none => (w, 0)
    else if n = "alias".toList then
      (if w.aliasDefined then w.writeTo ((t 1).map (·.obj)) "alias q7='v'".toList else w, 0)
    else ({ w with unmodelled := true }, 0)
  | n :: _ :: _ :: _ =>
    if n = "alias".toList then (w.writeTo ((t 2).map (·.obj)) "alias syntax error: usage: alias foo='echo foo'".toList, 1)
    else ({ w with unmodelled := true }, 0)
  | [n, a] =>
    if n = "source".toList then
      match srcTag a with
      | some tag =>
        (match launch1 t (fdstageCmd tag) with
         | some t' => helperOps tag t' shellT [] (w.note s!"T:{String.ofList tag}:{showTable t'}", false, 0)
         | none => ({ w with unmodelled := true }, 0))
      | none => ({ w with unmodelled := true }, 0)
    else
    -- defining the alias in a forked stage has no effect on the shell
    if n = "alias".toList ∧ a = "q7=v".toList then (w, 0)
    else if n = "alias".toList then
      -- a name: `cicada: alias: <name>: not found` (a diagnostic, never compared), status 1; anything else: nothing
      if a.all (fun c => c.isAlphanum ∨ c = '_' ∨ c = '.' ∨ c = '-') then
        (w.writeTo ((t 2).map (·.obj)) ("cicada: alias: ".toList ++ a ++ ": not found".toList), 1)
      else (w, 0)
    else ({ w with unmodelled := true }, 0)
  | _ => ({ w with unmodelled := true }, 0)

/-- play one forked stage; returns the world and the stage's exit status -/
def playChild (launch1 : Table → Command → Option Table) (w : World) (shellT : Table) (lim : Nat) : ChildEnd → World × Nat
  | .exec argv t =>
    match argv with
    | name :: tag :: ops =>
      if isFdstage name then
        let w := (w.note s!"T:{String.ofList tag}:{showTable t}")
        helperOps tag t shellT ops (w, false, 0)
      else ({ w with unmodelled := true }, 0)
    | _ => ({ w with unmodelled := true }, 0)
  | .notFound _ _ => (w, 127)
  | .builtin argv t => builtinInChild launch1 shellT w argv t lim
  | .died c => (w, c)

def playChildren (launch1 : Table → Command → Option Table) (shellT : Table) (lim : Nat) :
    List (Nat × ChildEnd × List (Str × Nat)) → World → List (Nat × Nat) → World × List (Nat × Nat)
  | [], w, sts => (w, sts)
  | (i, ce, _) :: rest, w, sts =>
    let (w1, st) := playChild launch1 w shellT lim ce
    playChildren launch1 shellT lim rest w1 (sts ++ [(i, st)])

def cfgOf (base : Cfg) (w : World) : Cfg := { base with lim := w.lim }

/-- run one planned line; returns the world and the captured stdout lines (capture mode) -/
def runPlan (L : Launcher) (base : Cfg) (w : World) (p : Plan) (capture : Bool) : World × List Str :=
  let cfg := cfgOf base w
  match p.commands with
  | [] => ({ w with status := 0 }, [])
  | [c] =>
    if cfg.isBuiltin c.name then
      -- a single builtin runs in the shell itself
      let argv := c.argv
      if c.name = "minfd".toList then
        match w.shell.alloc cfg.lim { obj := .file "/dev/null".toList 0 } with
        | none => ({ w with status := 0 }, [])
        | some (t1, d) =>
          if capture then ({ w with status := 0 }, [(toString d).toList])
          else
            let pr := L.print cfg c.redirectsTo false t1
            if pr.failed then ({ w.applyOpens pr.opened with shell := pr.t.close d, status := 1 }, [])
            else
            let w1 := (w.applyOpens pr.opened).writeTo pr.target (toString d).toList
            ({ w1 with shell := pr.t.close d, status := 0 }, [])
      else if c.name = "alias".toList ∧ argv.length = 1 then
        let text : Str := if w.aliasDefined then "alias q7='v'".toList else []
        if capture then ({ w with status := 0 }, if text = [] then [] else [text])
        else
          let pr := L.print cfg c.redirectsTo false w.shell
          let w1 := w.applyOpens pr.opened
          if pr.failed then ({ w1 with shell := pr.t, status := 1 }, [])
          else
          let w2 := if text = [] then w1 else w1.writeTo pr.target text
          ({ w2 with shell := pr.t, status := 0 }, [])
      else if c.name = "alias".toList ∧ argv.length = 2 ∧ argv.getD 1 [] = "q7=v".toList then
        ({ w with aliasDefined := true, status := 0 }, [])
      else if c.name = "alias".toList ∧ argv.length = 2 then
        let a := argv.getD 1 []
        if a.all (fun ch => ch.isAlphanum ∨ ch = '_' ∨ ch = '.' ∨ ch = '-') then
          if capture then ({ w with status := 1 }, [])
          else
            let pr := L.print cfg c.redirectsTo true w.shell
            if pr.failed then ({ w.applyOpens pr.opened with shell := pr.t, status := 1 }, [])
            else
            let w1 := (w.applyOpens pr.opened).writeTo pr.target ("cicada: alias: ".toList ++ a ++ ": not found".toList)
            ({ w1 with shell := pr.t, status := 1 }, [])
        else ({ w with status := 0 }, [])
      else if c.name = "alias".toList ∧ argv.length > 2 then
        if capture then ({ w with status := 1 }, [])
        else
          let pr := L.print cfg c.redirectsTo true w.shell
          if pr.failed then ({ w.applyOpens pr.opened with shell := pr.t, status := 1 }, [])
          else
          let w1 := (w.applyOpens pr.opened).writeTo pr.target "alias syntax error: usage: alias foo='echo foo'".toList
          ({ w1 with shell := pr.t, status := 1 }, [])
      else if c.name = "source".toList ∧ argv.length = 2 ∧ c.redirectsTo = [] ∧ c.redirectFrom = none ∧ !capture then
        -- `source sN.sh` as the whole line runs in the shell itself: its one command is started from the shell's own table
        -- (the script file the builtin holds open is close-on-exec)
        match srcTag (argv.getD 1 []) with
        | some tag => runPipe cfg [fdstageCmd tag] false
        | none => ({ w with unmodelled := true }, [])
      else if c.name = "ulimit".toList ∧ argv.length = 3 ∧ argv.getD 1 [] = "-n".toList then
        ({ w with lim := natOfStr (argv.getD 2 []), status := 0 }, [])
      else ({ w with unmodelled := true }, [])
    else runPipe cfg p.commands p.background
  | _ => runPipe cfg p.commands p.background
where
  runPipe (cfg : Cfg) (cmds : List Command) (bg : Bool) : World × List Str :=
    let l := L.pipeline cfg cmds capture bg w.shell w.np
    if l.failed then ({ w with shell := l.shell, np := l.np, status := 1 }, [])
    else
      let pc := l.fed.foldl (fun pc (k, text) => setAssoc pc k [text]) w.pipesC
      let w1 : World := { w with shell := l.shell, np := l.np, pipesC := pc }
      let w2 := l.children.foldl (fun w (_, _, ops) => w.applyOpens ops) w1
      let launch1 : Table → Command → Option Table := fun t cmd =>
        match (L.pipeline cfg [cmd] false false t l.np).children with
        | [(_, .exec _ t', _)] => some t'
        | _ => none
      let (w3, sts) := playChildren launch1 l.shell cfg.lim l.children w2 []
      let st := if l.lastFailed then 1 else match l.statusFrom with
        | some i => getAssoc sts i 0
        | none => 0
      let captured := match l.capOut with
        | some k => getAssoc w3.pipesC k []
        | none => []
      ({ w3 with status := if capture then w.status else st }, captured)

/-- `$?` in the line text (the only expansion the session lines use) -/
def substStatus (st : Nat) : Str → Str
  | '$' :: '?' :: rest => (toString st).toList ++ substStatus st rest
  | c :: rest => c :: substStatus st rest
  | [] => []

def runLine (L : Launcher) (base : Cfg) (w : World) (line : Str) (capture : Bool) : World × List Str :=
  match planOfTokens (parseLine (substStatus w.status line)) with
  | .error _ => ({ w with status := 1 }, [])
  | .ok p => runPlan L base w p capture

def runItem (L : Launcher) (base : Cfg) (w : World) : Item → World
  | .plain line => (runLine L base w line false).1
  | .subst outer inner =>
    let (w1, cap) := runLine L base w inner true
    let text : Str := (cap.map (fun l => l)).foldl (fun acc l => if acc = [] then l else acc ++ [' '] ++ l) []
    (runLine L base w1 (outer ++ text) false).1

def runSession (L : Launcher) (base : Cfg) (w : World) (items : List Item) : World :=
  items.foldl (runItem L base) w

/-- the launcher that is the model of cicada -/
def modelLauncher : Launcher where
  pipeline := fun cfg cmds capture bg t np =>
    let r := runPipeline cfg cmds capture bg t np
    match r.outcome with
    | .failed => { shell := r.shell, np := r.np, failed := true }
    | _ =>
      { shell := r.shell, np := r.np, children := r.children, fed := r.fed, capOut := r.capOut,
        statusFrom := if bg then none else match r.fg.getLast? with
          | some (.stage i) => some i
          | _ => none,
        lastFailed := r.hsFailed.contains (cmds.length - 1) }
  print := builtinPrint

/-- the shell's table when a session starts: 0, 1, 2, and (when it runs a script file) the script itself,
opened by Rust's `File::open` (close-on-exec) and kept open while the script runs (scripting.rs `run_script`) -/
def initTable (script : Bool) : Table := fun fd =>
  if fd < 3 then some { obj := .inh fd } else if fd = 3 ∧ script then some { obj := .inh 3, cx := true } else none

def sortStrs (l : List String) : List String := l.mergeSort (fun a b => decide (a ≤ b))

/-- rename pipe identities (`=pr<k>` / `=pw<k>`) in order of first appearance in the text -/
def canonGo : Nat → List Char → List (List Char × Nat) → List Char
  | 0, cs, _ => cs
  | _, [], _ => []
  | f + 1, '=' :: 'p' :: rw :: rest, names =>
    if (rw = 'r' ∨ rw = 'w') ∧ (rest.head?.map Char.isDigit).getD false then
      let ds := rest.takeWhile Char.isDigit
      let tl := rest.dropWhile Char.isDigit
      match names.find? (·.1 = ds) with
      | some (_, k) => '=' :: 'p' :: rw :: (toString k).toList ++ canonGo f tl names
      | none => '=' :: 'p' :: rw :: (toString names.length).toList ++ canonGo f tl (names ++ [(ds, names.length)])
    else '=' :: canonGo f ('p' :: rw :: rest) names
  | f + 1, c :: rest, names => c :: canonGo f rest names

def canonPipes (s : String) : String := String.ofList (canonGo (s.length + 1) s.toList [])

/-- the observation text: helper records sorted by tag, then files, then the shell's own stdout / stderr -/
def render (w : World) : String :=
  if w.unmodelled then "UNMODELLED" else
  let dropDiag := fun (ls : List Str) => ls.filter (fun l => !(String.ofList l).startsWith "cicada:")
  let files := sortStrs (w.files.map (fun (p, ls) => s!"F:{hexStr p}:{",".intercalate (sortStrs ((dropDiag ls).map hexStr))}"))
  canonPipes ("|".intercalate (sortStrs w.obs ++ files ++
    [s!"O:{",".intercalate (sortStrs ((dropDiag w.out).map hexStr))}", s!"E:{",".intercalate (sortStrs ((dropDiag w.err).map hexStr))}"]))

end Cicada.FdSession
