import Cicada.Model.Expand
/-!
# Model of file-name completion: `src/completers/path.rs` (`complete_path`, `split_dir_file`),
`src/completers/mod.rs` (`escaped_word_start`), `src/completers/utils.rs` (`expand_env_string`) and
`tools::escape_path` (tools.rs:240-243)

Hand transcription, the code as it is (its bugs included).  What the outside world answers is a parameter:
`fs` (what `read_dir` lists, per directory text handed to it, with `is_dir` of each entry) and `envVar`
(`std::env::var`).  `expand_home_string` (words holding ` ~/`-like parts) is not modelled: such words yield
`Outcome.err "unmodelled:home"`.
-/
namespace Cicada

/-! ## tools::escape_path -/

/-- the character class of the regex in `escape_path`, regenerated from `src/tools.rs` on every run -/
def inEscapeClass (c : Char) : Bool := Generated.escapeClass.contains c

/-- `re.replace_all(path, "\\$c")`: a backslash in front of every character of the class -/
def escapePath (p : Str) : Str := p.flatMap (fun c => if inEscapeClass c then ['\\', c] else [c])

/-! ## completers::escaped_word_start (mod.rs:113-152) -/

namespace EWS
structure St where
  start : Nat := 0
  bs : Bool := false
  space : Bool := false
  quote : Bool := false
  chq : Char := '\x00'
  extra : Nat := 0
  deriving Repr, DecidableEq

/-- one round of the `for (i, c) in line.chars().enumerate()` loop -/
def step (s : St) (i : Nat) (c : Char) : St :=
  let s := if s.space then { s with space := false, start := i + s.extra } else s
  if c = '\\' then { s with bs := true }
  else if c = ' ' ∧ !s.bs ∧ !s.quote then { s with space := true }
  else
    let s :=
      if !s.quote ∧ !s.bs ∧ (c = '"' ∨ c = '\'') then { s with quote := true, chq := c }
      else if s.quote ∧ !s.bs ∧ s.chq = c then { s with quote := false }
      else s
    { s with extra := s.extra + (c.utf8Size - 1), bs := false }

def go (s : St) (i : Nat) : Str → St
  | [] => s
  | c :: cs => go (step s i c) (i + 1) cs
end EWS

/-- `str::len` of the text: number of UTF-8 bytes -/
def utf8Len (l : Str) : Nat := (l.map Char.utf8Size).sum

/-- byte offset at which the word under the cursor starts -/
def escapedWordStart (line : Str) : Nat :=
  let s := EWS.go {} 0 line
  if s.space then utf8Len line else s.start

/-! ## completers::path -/

/-- ` *\$[a-zA-Z_][A-Za-z0-9_]*` occurs (path.rs:26-28) -/
def isEnvPrefix : Str → Bool
  | [] => false
  | c :: cs => (c = '$' && (match cs with
      | d :: _ => isNameStart d
      | [] => false)) || isEnvPrefix cs

/-- text after the last occurrence of `d` (the whole text when there is none) -/
def afterLast (d : Char) (p : Str) : Str := (p.reverse.takeWhile (· ≠ d)).reverse

/-- text up to and including the last occurrence of `d` (empty when there is none) -/
def uptoLast (d : Char) (p : Str) : Str := (p.reverse.dropWhile (· ≠ d)).reverse

/-- `split_dir_file(path)`: (directory part incl. the last `/`, file part) -/
def splitPathname (path : Str) : Str × Str := (uptoLast '/' path, afterLast '/' path)

/-- `( +~ +)|( +~/)|(^ *~/)|( +~ *$)` occurs (path.rs:78-80) -/
def needsExpandHome (p : Str) : Bool :=
  (match p.dropWhile (· = ' ') with
   | '~' :: '/' :: _ => true
   | _ => false) || go p
where go : Str → Bool
  | [] => false
  | c :: r => (c = ' ' && (match r with
      | '~' :: r2 => (match r2 with
          | ' ' :: _ => true
          | '/' :: _ => true
          | _ => r2.all (· = ' '))
      | _ => false)) || go r

/-- `completers::utils::expand_env_string`: a leading `$NAME` is replaced by its (non-empty) value,
the value being used as a replacement template of the `regex` crate -/
def expandEnvString (envVar : Str → Option Str) (text : Str) : Str :=
  match text with
  | '$' :: r =>
    (match r with
     | c :: _ =>
       if isNameStart c then
         let name := r.takeWhile isNameChar
         let rest := r.dropWhile isNameChar
         match envVar name with
         | some v => if v = [] then text else
             expandTemplate { groups := [some ('$' :: name), some name], names := [] } v ++ rest
         | none => text
       else text
     | [] => text)
  | _ => text

/-- `str::replace(name, "//", "/")`: non-overlapping, left to right -/
def replaceDoubleSlash : Str → Str
  | '/' :: '/' :: r => '/' :: replaceDoubleSlash r
  | c :: r => c :: replaceDoubleSlash r
  | [] => []

structure Completion where
  completion : Str
  display : Option Str
  /-- `Suffix::Some('/')` (directories) instead of `Suffix::Default` -/
  dirSuffix : Bool
  deriving Repr, DecidableEq

/-- `String::cmp`: lexicographic by code point (= by UTF-8 bytes) -/
def strLe : Str → Str → Bool
  | [], _ => true
  | _ :: _, [] => false
  | a :: as, b :: bs => if a = b then strLe as bs else decide (a.toNat < b.toNat)

/-- the completion built for one directory entry (path.rs:118-147) -/
def mkCompletion (sep : Str) (isEnv : Bool) (dirOrig : Str) (name : Str) (isDir : Bool) : Completion :=
  let full := if dirOrig ≠ [] then dirOrig ++ '/' :: name else name
  let display := if dirOrig ≠ [] then some name else none
  let n1 := replaceDoubleSlash full
  let n2 := if sep = [] ∧ !isEnv then escapePath n1 else n1
  let n3 := if sep ≠ [] then wrapSepString sep n2 else n2
  if isDir then { completion := if sep ≠ [] then n3.dropLast else n3, display := display, dirSuffix := true }
  else { completion := n3, display := display, dirSuffix := false }

/-- the last token of `parse_line(word)`, `("", "")` when there is none (path.rs:86-92) -/
def lastToken (word : Str) : Tok :=
  match (parseLine word).getLast? with
  | some t => t
  | none => ([], [])

/-- `complete_path(word, for_dir)` (path.rs:82-161).
`fs dir` = the entries `read_dir(dir)` yields with their `is_dir()`, `none` when it fails. -/
def completePath (fs : Str → Option (List (Str × Bool))) (envVar : Str → Option Str)
    (word : Str) (forDir : Bool) : Outcome (List Completion) :=
  let isEnv := isEnvPrefix word
  let sep := (lastToken word).1
  let path := (lastToken word).2
  let dirOrig := (splitPathname path).1
  if needsExpandHome path then .err "unmodelled:home" else
  let ext := expandEnvString envVar path
  let dirLookup := if (splitPathname ext).1 = [] then ['.'] else (splitPathname ext).1
  let fileName := (splitPathname ext).2
  match fs dirLookup with
  | none => .ok []
  | some entries =>
    let kept := entries.filter (fun e => (!forDir || e.2) && startsWith e.1 fileName)
    .ok ((kept.map (fun e => mkCompletion sep isEnv dirOrig e.1 e.2)).mergeSort
      (fun a b => strLe a.completion b.completion))

/-- `lineread` substitutes the completion for the word and appends the suffix character; what the line
holds afterwards once the user has closed a quote the editor left open (directories) -/
def closingQuote (sep : Str) : Str := if sep = ['\''] ∨ sep = ['"'] ∨ sep = ['`'] then sep else []

end Cicada
