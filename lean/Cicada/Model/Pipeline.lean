import Cicada.Model.Kernel
import Cicada.Model.Types
/-!
# Model of `core::run_pipeline` / `run_single_program` (src/core.rs:114-620) and of the builtin output
path `builtins::utils` (src/builtins/utils.rs:17-199) as sequences of descriptor operations

The parent and every child are modelled as the exact sequence of `pipe` / `close` / `dup` / `dup2` / `open`
calls the Rust code issues, over the table world of `Model/Kernel.lean`; `fork` copies the parent's table.
Descriptor *numbers* are exact (lowest-free allocation), because several defects of the snapshot were
number-reuse defects.  What a program or builtin then writes where is derived from the table it ends up with.
-/
namespace Cicada
def Command.argv (c : Command) : List Str := c.tokens.map (·.2)

def Command.name (c : Command) : Str := (c.tokens.head?.map (·.2)).getD []

def Command.isHere (c : Command) : Bool := match c.redirectFrom with | some (ty, _) => ty = "<<<".toList | none => false
def Command.isFrom (c : Command) : Bool := match c.redirectFrom with | some (ty, _) => ty = "<".toList | none => false

end Cicada

namespace Cicada.Pipeline
open Cicada.Kernel

structure Cfg where
  /-- `RLIMIT_NOFILE` -/
  lim : Nat := 1024
  /-- can the path be opened for writing (create / truncate / append) -/
  canWrite : Str → Bool := fun _ => true
  canRead : Str → Bool := fun _ => true
  /-- `tools::is_builtin` -/
  isBuiltin : Str → Bool := fun _ => false
  /-- an external program of that name can be executed -/
  found : Str → Bool := fun _ => true

/-- how a forked stage ends up -/
inductive ChildEnd where
  /-- `execve` succeeded; the table is what the program starts with -/
  | exec (argv : List Str) (t : Table)
  /-- `command not found` (exit 127) after all redirections were applied -/
  | notFound (argv : List Str) (t : Table)
  /-- a builtin run in the forked child, writing to descriptors 1 / 2 of this table, then `exit(status)` -/
  | builtin (argv : List Str) (t : Table)
  /-- `process::exit(code)` before exec (a redirection target could not be opened, `dup` failed) -/
  | died (code : Nat)

abbrev Fds := Nat × Nat

/-- the capture pipes (stdout, stderr) -/
abbrev Cap := Option Fds × Option Fds

def closePair (t : Table) (p : Fds) : Table := (t.close p.1).close p.2

def closeOpt (t : Table) : Option Fds → Table
  | none => t
  | some p => closePair t p

/-- state of the child's redirection loop (core.rs:376-431) -/
structure RState where
  t : Table
  outRed : Bool := false
  errRed : Bool := false
  /-- files opened so far, in order: (path, mode) -/
  opened : List (Str × Nat) := []

def redirStep (cfg : Cfg) (notLast capture : Bool) (s : RState) (r : Redir) : Option RState :=
  let (from_, op, to) := r
  if to = "&1".toList ∧ from_ = "2".toList then
    if notLast then some { s with t := s.t.dup2 1 2 }
    else if !capture then
      match s.t.dup cfg.lim 1 with
      | none => none
      | some (t1, fd) => some { s with t := (t1.dup2 fd 2).close fd }
    else some s
  else if to = "&2".toList ∧ from_ = "1".toList then
    if notLast ∨ !capture then
      match s.t.dup cfg.lim 2 with
      | none => none
      | some (t1, fd) => some { s with t := (t1.dup2 fd 1).close fd }
    else some s
  else
    if !cfg.canWrite to then none
    else
      match s.t.openFile cfg.lim to (if op = ">>".toList then 2 else 1) with
      | none => none
      | some (t1, fd) =>
        let mode := if op = ">>".toList then 2 else 1
        if from_ = "1".toList then some { s with t := t1.dup2 fd 1, outRed := true, opened := s.opened ++ [(to, mode)] }
        else some { s with t := t1.dup2 fd 2, errRed := true, opened := s.opened ++ [(to, mode)] }

/-- the loop over `redirects_to`; the Boolean says whether it ran to the end (otherwise `process::exit(1)`) -/
def redirLoop (cfg : Cfg) (notLast capture : Bool) : RState → List Redir → RState × Bool
  | s, [] => (s, true)
  | s, r :: rest =>
    match redirStep cfg notLast capture s r with
    | none => (s, false)
    | some s' => redirLoop cfg notLast capture s' rest

/-- the child's side of `run_single_program` for stage `i` of `m + 1` stages, on the table inherited at `fork` -/
def childRun (cfg : Cfg) (cmd : Command) (i m : Nat) (pipes : List Fds) (cap : Cap) (hs : Option Fds)
    (capture : Bool) (t0 : Table) : ChildEnd × List (Str × Nat) :=
  -- close pipes unrelated to the current child (right side)
  let t := ((List.range (m - (i + 1))).map (· + (i + 1))).foldl (fun t j => closePair t (pipes.getD j (0, 0))) t0
  -- close the capture pipes (they are only used in the last child)
  let t := if i < m then closeOpt (closeOpt t cap.1) cap.2 else t
  -- replace stdin / stdout with the ends of the neighbouring pipes
  let t := if i > 0 then let p := pipes.getD (i - 1) (0, 0); (t.dup2 p.1 0).close p.1 else t
  let t := if i < m then let p := pipes.getD i (0, 0); ((t.dup2 p.2 1).close p.2).close p.1 else t
  -- `< file`
  let t? : Option Table :=
    if cmd.isFrom then
      let path := (cmd.redirectFrom.map (fun (x : Tok) => x.2)).getD []
      if !cfg.canRead path then none
      else match t.openFile cfg.lim path 0 with
        | none => none
        | some (t1, fd) => some ((t1.dup2 fd 0).close fd)
    else some t
  match t? with
  | none => (.died 1, [])
  | some t =>
    -- `<<< text`
    let t := if cmd.isHere then
        match hs with
        | some p => ((t.close p.2).dup2 p.1 0).close p.1
        | none => t
      else t
    match redirLoop cfg (decide (i < m)) capture { t := t } cmd.redirectsTo with
    | (s, false) => (.died 1, s.opened)
    | (s, true) =>
      -- capture the output of the last stage
      let t := s.t
      let t := if i = m ∧ capture then
          let t := match cap.1 with
            | some p => ((if s.outRed then t.close p.1 else (t.close p.1).dup2 p.2 1)).close p.2
            | none => t
          match cap.2 with
            | some p => ((if s.errRed then t.close p.1 else (t.close p.1).dup2 p.2 2)).close p.2
            | none => t
        else t
      (if cfg.isBuiltin cmd.name then .builtin cmd.argv t
       else if cfg.found cmd.name then .exec cmd.argv t.atExec
       else .notFound cmd.argv t, s.opened)

/-- who `wait_fg_job` is asked to wait for: a forked stage, or the bogus pid `1` that
`run_single_program` returns when the here-string pipe cannot be created -/
inductive FgPid | stage (i : Nat) | bogus
  deriving DecidableEq, Repr

structure PState where
  shell : Table
  /-- number of pipes created so far (names the next one) -/
  np : Nat
  children : List (Nat × ChildEnd × List (Str × Nat)) := []
  fg : List FgPid := []
  /-- text fed to here-string pipes by the parent: (pipe number, text) -/
  fed : List (Nat × Str) := []

/-- the parent's side of `run_single_program` for stage `i` (not the single-builtin case) -/
def parentStage (cfg : Cfg) (cmd : Command) (i m : Nat) (pipes : List Fds) (cap : Cap) (capture bg : Bool)
    (s : PState) : PState :=
  -- here-string pipe
  let hsR : Option (Option (Table × Nat × Nat)) :=
    if cmd.isHere then some (s.shell.pipe cfg.lim s.np) else none
  match hsR with
  | some none => { s with fg := if bg then s.fg else s.fg ++ [FgPid.bogus] }     -- `return 1` (pipeline4)
  | _ =>
    let (t, np, hs, hsk) := match hsR with
      | some (some (t1, r, w)) => (t1, s.np + 1, some (r, w), some s.np)
      | _ => (s.shell, s.np, none, none)
    -- fork: the child starts from a copy of `t`
    let child := childRun cfg cmd i m pipes cap hs capture t
    -- parent: feed and close the here-string pipe
    let (t, fed) := match hs, hsk with
      | some p, some k => (closePair t p, s.fed ++ [(k, (cmd.redirectFrom.map (fun (x : Tok) => x.2)).getD [])])
      | _, _ => (t, s.fed)
    -- parent: close unused pipe ends
    let t := if i < m then t.close (pipes.getD i (0, 0)).2 else t
    let t := if i > 0 then t.close (pipes.getD (i - 1) (0, 0)).1 else t
    -- parent: read the capture pipes to the end and drop them
    let t := if i = m ∧ capture then closeOpt (closeOpt t cap.1) cap.2 else t
    { shell := t, np := np, children := s.children ++ [(i, child)],
      fg := if bg then s.fg else s.fg ++ [FgPid.stage i], fed := fed }

def parentLoop (cfg : Cfg) (m : Nat) (pipes : List Fds) (cap : Cap) (capture bg : Bool) :
    Nat → List Command → PState → PState
  | _, [], s => s
  | i, c :: rest, s => parentLoop cfg m pipes cap capture bg (i + 1) rest (parentStage cfg c i m pipes cap capture bg s)

/-- the `for _ in 0..length - 1 { pipe() }` loop (core.rs:150-160): stops at the first failure; returns the
table, the pipe counter, the pipes created so far and whether all were created -/
def mkPipes (lim : Nat) : Nat → Table → Nat → List Fds → Table × Nat × List Fds × Bool
  | 0, t, np, acc => (t, np, acc, true)
  | n + 1, t, np, acc =>
    match t.pipe lim np with
    | none => (t, np, acc, false)
    | some (t1, r, w) => mkPipes lim n t1 (np + 1) (acc ++ [(r, w)])

/-- `for fds in pipes { close(fds.0); close(fds.1) }` -/
def releasePipes (t : Table) (pipes : List Fds) : Table := pipes.foldl closePair t

inductive Outcome where
  /-- `CommandResult::error()` before anything was forked -/
  | failed
  /-- the line was a single builtin, run in the shell itself -/
  | singleBuiltin
  /-- stages were forked; `fg` is what `wait_fg_job` waits for -/
  | ran

structure Result where
  shell : Table
  np : Nat
  outcome : Outcome
  children : List (Nat × ChildEnd × List (Str × Nat)) := []
  fg : List FgPid := []
  fed : List (Nat × Str) := []
  /-- number of the pipe that captures the last stage's stdout -/
  capOut : Option Nat := none

/-- `run_pipeline` after the calculator / function / empty cases, for a line that is not a single builtin -/
def runPipeline (cfg : Cfg) (cmds : List Command) (capture bg : Bool) (t0 : Table) (np0 : Nat) : Result :=
  if bg ∧ capture then { shell := t0, np := np0, outcome := .failed }
  else
    let m := cmds.length - 1
    let (t1, np1, pipes, ok) := mkPipes cfg.lim m t0 np0 []
    if !ok then
      -- release fds that already created when errors occurred
      { shell := releasePipes t1 pipes, np := np1, outcome := .failed }
    else if !capture then
      let s := parentLoop cfg m pipes (none, none) capture bg 0 cmds { shell := t1, np := np1 }
      { shell := s.shell, np := s.np, outcome := .ran, children := s.children, fg := s.fg, fed := s.fed }
    else
      -- capture pipes (core.rs:188-216)
      match t1.pipe cfg.lim np1 with
      | none => { shell := releasePipes t1 pipes, np := np1, outcome := .failed }
      | some (t2, r, w) =>
        match t2.pipe cfg.lim (np1 + 1) with
        | none => { shell := releasePipes (closePair t2 (r, w)) pipes, np := np1 + 1, outcome := .failed }
        | some (t3, r', w') =>
          let s := parentLoop cfg m pipes (some (r, w), some (r', w')) capture bg 0 cmds { shell := t3, np := np1 + 2 }
          { shell := s.shell, np := s.np, outcome := .ran, children := s.children, fg := s.fg, fed := s.fed, capOut := some np1 }

/-! ### builtin output: `builtins::utils` -/

/-- `_get_std_fds` (utils.rs:17-50, after `fix:` e06eb6a): one left-to-right walk; `1>&2` / `2>&1` duplicate the other
descriptor as it stands at that point (the shell's own 2 / 1 when it has not been redirected yet); a target that
cannot be opened is silently skipped (the slot becomes `None`).  Returns the table, the (stdout, stderr)
descriptors and the files opened. -/
def getStdFdsGo (cfg : Cfg) : List Redir → Table → Option Nat → Option Nat → List (Str × Nat) →
    Table × Option Nat × Option Nat × List (Str × Nat)
  | [], t, o, e, lg => (t, o, e, lg)
  | (from_, op, to) :: rest, t, o, e, lg =>
    let isOut := from_ = "1".toList
    if !isOut ∧ from_ ≠ "2".toList then getStdFdsGo cfg rest t o e lg
    else
      let mode := if op = ">>".toList then 2 else 1
      let (t, cand, lg) :=
        if isOut ∧ to = "&2".toList then
          match t.dup cfg.lim (e.getD 2) with
          | some (t1, fd) => (t1, some fd, lg)
          | none => (t, none, lg)
        else if !isOut ∧ to = "&1".toList then
          match t.dup cfg.lim (o.getD 1) with
          | some (t1, fd) => (t1, some fd, lg)
          | none => (t, none, lg)
        else if cfg.canWrite to then
          match t.openFile cfg.lim to mode with
          | some (t1, fd) => (t1, some fd, lg ++ [(to, mode)])
          | none => (t, none, lg)
        else (t, none, lg)
      if isOut then
        let t := match o with | some fd => t.close fd | none => t
        getStdFdsGo cfg rest t cand e lg
      else
        let t := match e with | some fd => t.close fd | none => t
        getStdFdsGo cfg rest t o cand lg

def getStdFds (cfg : Cfg) (rs : List Redir) (t : Table) : Table × Option Nat × Option Nat × List (Str × Nat) :=
  getStdFdsGo cfg rs t none none []

structure Printed where
  t : Table
  /-- the object the text was written to (`none`: nothing could be written) -/
  target : Option Obj
  /-- files opened on the way, in order -/
  opened : List (Str × Nat)
  /-- the command was refused (reference semantics only: a target could not be opened) -/
  failed : Bool := false

/-- `print_stdout` (err = false) / `print_stderr` (err = true) of a builtin that is the whole line -/
def builtinPrint (cfg : Cfg) (rs : List Redir) (err : Bool) (t : Table) : Printed :=
  let (t1, o, e, lg) := getStdFds cfg rs t
  let (mine, other) := if err then (e, o) else (o, e)
  let t2 := match other with | some fd => t1.close fd | none => t1
  match mine with
  | some fd => { t := t2.close fd, target := (t2 fd).map (·.obj), opened := lg }
  | none =>
    match t2.dup cfg.lim (if err then 2 else 1) with
    | some (t3, fd) => { t := t3.close fd, target := (t3 fd).map (·.obj), opened := lg }
    | none => { t := t2, target := none, opened := lg }

end Cicada.Pipeline
