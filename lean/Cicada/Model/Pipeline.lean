import Cicada.Model.Kernel
import Cicada.Model.Types
/-!
# Model of `core::run_pipeline` / `run_single_program` (src/core.rs:114-620) and of the builtin output
path `builtins::utils` (src/builtins/utils.rs:17-199) as sequences of descriptor operations

The parent and every child are modelled as the exact sequence of `pipe` / `close` / `dup` / `dup2` / `open`
calls the Rust code issues, over the table world of `Model/Kernel.lean`; `fork` copies the parent's table.
Descriptor *numbers* are exact (lowest-free allocation), because several defects of the snapshot were
number-reuse defects.  What a program or builtin then writes where is derived from the table it ends up with.
-/
namespace Cicada
def Command.argv (c : Command) : List Str := c.tokens.map (·.2)

def Command.name (c : Command) : Str := (c.tokens.head?.map (·.2)).getD []

def Command.isHere (c : Command) : Bool := match c.redirectFrom with | some (ty, _) => ty = "<<<".toList | none => false
def Command.isFrom (c : Command) : Bool := match c.redirectFrom with | some (ty, _) => ty = "<".toList | none => false

end Cicada

namespace Cicada.Pipeline
open Cicada.Kernel

structure Cfg where
  /-- `RLIMIT_NOFILE` -/
  lim : Nat := 1024
  /-- can the path be opened for writing (create / truncate / append) -/
  canWrite : Str → Bool := fun _ => true
  canRead : Str → Bool := fun _ => true
  /-- `tools::is_builtin` -/
  isBuiltin : Str → Bool := fun _ => false
  /-- an external program of that name can be executed -/
  found : Str → Bool := fun _ => true

/-- how a forked stage ends up -/
inductive ChildEnd where
  /-- `execve` succeeded; the table is what the program starts with -/
  | exec (argv : List Str) (t : Table)
  /-- `command not found` (exit 127) after all redirections were applied -/
  | notFound (argv : List Str) (t : Table)
  /-- a builtin run in the forked child, writing to descriptors 1 / 2 of this table, then `exit(status)` -/
  | builtin (argv : List Str) (t : Table)
  /-- `process::exit(code)` before exec (a redirection target could not be opened, `dup` failed) -/
  | died (code : Nat)

abbrev Fds := Nat × Nat

/-- the capture pipes (stdout, stderr) -/
abbrev Cap := Option Fds × Option Fds

def closePair (t : Table) (p : Fds) : Table := (t.close p.1).close p.2

def closeOpt (t : Table) : Option Fds → Table
  | none => t
  | some p => closePair t p

/-- state of the child's redirection loop (core.rs:376-431) -/
structure RState where
  t : Table
  outRed : Bool := false
  errRed : Bool := false
  /-- files opened so far, in order: (path, mode) -/
  opened : List (Str × Nat) := []

def redirStep (cfg : Cfg) (notLast capture : Bool) (s : RState) (r : Redir) : Option RState :=
  let (from_, op, to) := r
  if to = "&1".toList ∧ from_ = "2".toList then
    if notLast then some { s with t := s.t.dup2 1 2 }
    else if !capture then
      match s.t.dup cfg.lim 1 with
      | none => none
      | some (t1, fd) => some { s with t := (t1.dup2 fd 2).close fd }
    else some s
  else if to = "&2".toList ∧ from_ = "1".toList then
    if notLast ∨ !capture then
      match s.t.dup cfg.lim 2 with
      | none => none
      | some (t1, fd) => some { s with t := (t1.dup2 fd 1).close fd }
    else some s
  else
    if !cfg.canWrite to then none
    else
      match s.t.openFile cfg.lim to (if op = ">>".toList then 2 else 1) with
      | none => none
      | some (t1, fd) =>
        let mode := if op = ">>".toList then 2 else 1
        if from_ = "1".toList then some { s with t := t1.dup2 fd 1, outRed := true, opened := s.opened ++ [(to, mode)] }
        else some { s with t := t1.dup2 fd 2, errRed := true, opened := s.opened ++ [(to, mode)] }

/-- the loop over `redirects_to`; the Boolean says whether it ran to the end (otherwise `process::exit(1)`) -/
def redirLoop (cfg : Cfg) (notLast capture : Bool) : RState → List Redir → RState × Bool
  | s, [] => (s, true)
  | s, r :: rest =>
    match redirStep cfg notLast capture s r with
    | none => (s, false)
    | some s' => redirLoop cfg notLast capture s' rest

/-- child, first phase (core.rs:316-367): close the pipes to the right and (unless last) the capture pipes, put the
neighbouring pipe ends on 0 / 1.  `prev` = `pipes[idx_cmd - 1]` (present iff `idx_cmd > 0`), `cur` = `pipes[idx_cmd]`
(present iff `idx_cmd < pipes_count`, i.e. the stage is not the last), `right` = `pipes[idx_cmd + 1 ..]`. -/
def childPipes (prev cur : Option Fds) (right : List Fds) (cap : Cap) (t0 : Table) : Table :=
  -- close pipes unrelated to the current child (right side)
  let t := right.foldl closePair t0
  -- close the capture pipes (they are only used in the last child)
  let t := if cur.isSome then closeOpt (closeOpt t cap.1) cap.2 else t
  -- replace stdin / stdout with the ends of the neighbouring pipes
  let t := match prev with | some p => (t.dup2 p.1 0).close p.1 | none => t
  match cur with | some p => ((t.dup2 p.2 1).close p.2).close p.1 | none => t

/-- child, second phase (core.rs:369-387): `< file` (`none`: the file cannot be opened, `process::exit(1)`) and `<<< text` -/
def childStdin (cfg : Cfg) (cmd : Command) (hs : Option Fds) (t : Table) : Option Table :=
  let t? : Option Table :=
    if cmd.isFrom then
      let path := (cmd.redirectFrom.map (fun (x : Tok) => x.2)).getD []
      if !cfg.canRead path then none
      else match t.openFile cfg.lim path 0 with
        | none => none
        | some (t1, fd) => some ((t1.dup2 fd 0).close fd)
    else some t
  match t? with
  | none => none
  | some t =>
    some (if cmd.isHere then
        match hs with
        | some p => ((t.close p.2).dup2 p.1 0).close p.1
        | none => t
      else t)

/-- the capture block of the last stage (core.rs:439-457, after `fix:` 81f99bf): both ends of both capture pipes are
closed; a stream that was not redirected is connected to its pipe first -/
def capBlock (cap : Cap) (outRed errRed : Bool) (t : Table) : Table :=
  let t := match cap.1 with
    | some p => ((if outRed then t.close p.1 else (t.close p.1).dup2 p.2 1)).close p.2
    | none => t
  match cap.2 with
    | some p => ((if errRed then t.close p.1 else (t.close p.1).dup2 p.2 2)).close p.2
    | none => t

/-- the child's side of `run_single_program` (core.rs:296-500) on the table inherited at `fork` -/
def childRun (cfg : Cfg) (cmd : Command) (prev cur : Option Fds) (right : List Fds) (cap : Cap) (hs : Option Fds)
    (capture : Bool) (t0 : Table) : ChildEnd × List (Str × Nat) :=
  match childStdin cfg cmd hs (childPipes prev cur right cap t0) with
  | none => (.died 1, [])
  | some t =>
    match redirLoop cfg cur.isSome capture { t := t } cmd.redirectsTo with
    | (s, false) => (.died 1, s.opened)
    | (s, true) =>
      -- capture the output of the last stage
      let t := if cur.isNone ∧ capture then capBlock cap s.outRed s.errRed s.t else s.t
      -- a program named without `/` is looked up with `read_dir` over $PATH (libs/path.rs:43-88), which needs a
      -- free descriptor in the child; without one the lookup finds nothing
      let lookupOk := cmd.name.contains '/' || (t.lowestFree cfg.lim).isSome
      (if cfg.isBuiltin cmd.name then .builtin cmd.argv t
       else if cfg.found cmd.name ∧ lookupOk then .exec cmd.argv t.atExec
       else .notFound cmd.argv t, s.opened)

/-- who `wait_fg_job` is asked to wait for: the forked stages -/
inductive FgPid | stage (i : Nat)
  deriving DecidableEq, Repr

structure PState where
  shell : Table
  /-- number of pipes created so far (names the next one) -/
  np : Nat
  children : List (Nat × ChildEnd × List (Str × Nat)) := []
  fg : List FgPid := []
  /-- text fed to here-string pipes by the parent: (pipe number, text) -/
  fed : List (Nat × Str) := []
  /-- stages that could not be started because their here-string pipe could not be created -/
  hsFailed : List Nat := []

/-- the parent's side of `run_single_program` for stage `i` (not the single-builtin case); `prev`, `cur`,
`right` as for `childRun` -/
def parentStage (cfg : Cfg) (cmd : Command) (i : Nat) (prev cur : Option Fds) (right : List Fds) (cap : Cap)
    (capture bg : Bool) (s : PState) : PState :=
  -- what the parent releases once the stage is dealt with: the write end of the stage's output pipe, the read end
  -- of its input pipe, and (last stage) the capture pipes
  let release := fun (t : Table) =>
    let t := match cur with | some p => t.close p.2 | none => t
    let t := match prev with | some p => t.close p.1 | none => t
    if cur.isNone then closeOpt (closeOpt t cap.1) cap.2 else t
  if cmd.isHere then
    match s.shell.pipe cfg.lim s.np with
    | none =>
      -- `pipeline4` (after `fix:`): the stage is not started; the parent releases what it holds for it
      { s with shell := release s.shell, hsFailed := s.hsFailed ++ [i] }
    | some (t1, r, w) =>
      -- fork: the child starts from a copy of the table; the parent feeds and closes the here-string pipe
      let child := childRun cfg cmd prev cur right cap (some (r, w)) capture t1
      { shell := release (closePair t1 (r, w)), np := s.np + 1, children := s.children ++ [(i, child)],
        fg := if bg then s.fg else s.fg ++ [FgPid.stage i],
        fed := s.fed ++ [(s.np, (cmd.redirectFrom.map (fun (x : Tok) => x.2)).getD [])], hsFailed := s.hsFailed }
  else
    let child := childRun cfg cmd prev cur right cap none capture s.shell
    { shell := release s.shell, np := s.np, children := s.children ++ [(i, child)],
      fg := if bg then s.fg else s.fg ++ [FgPid.stage i], fed := s.fed, hsFailed := s.hsFailed }

/-- the `for i in 0..length` loop of `run_pipeline`: `rest` are the pipes from `pipes[i]` on -/
def parentLoop (cfg : Cfg) (cap : Cap) (capture bg : Bool) :
    Option Fds → List Fds → List Command → Nat → PState → PState
  | _, _, [], _, s => s
  | prev, rest, c :: cs, i, s =>
    parentLoop cfg cap capture bg rest.head? rest.tail cs (i + 1)
      (parentStage cfg c i prev rest.head? rest.tail cap capture bg s)

/-- the `for _ in 0..length - 1 { pipe() }` loop (core.rs:150-160): stops at the first failure; returns the
table, the pipe counter, the pipes created so far and whether all were created -/
def mkPipes (lim : Nat) : Nat → Table → Nat → List Fds → Table × Nat × List Fds × Bool
  | 0, t, np, acc => (t, np, acc, true)
  | n + 1, t, np, acc =>
    match t.pipe lim np with
    | none => (t, np, acc, false)
    | some (t1, r, w) => mkPipes lim n t1 (np + 1) (acc ++ [(r, w)])

/-- `for fds in pipes { close(fds.0); close(fds.1) }` -/
def releasePipes (t : Table) (pipes : List Fds) : Table := pipes.foldl closePair t

inductive Outcome where
  /-- `CommandResult::error()` before anything was forked -/
  | failed
  /-- the line was a single builtin, run in the shell itself -/
  | singleBuiltin
  /-- stages were forked; `fg` is what `wait_fg_job` waits for -/
  | ran

structure Result where
  shell : Table
  np : Nat
  outcome : Outcome
  children : List (Nat × ChildEnd × List (Str × Nat)) := []
  fg : List FgPid := []
  fed : List (Nat × Str) := []
  hsFailed : List Nat := []
  /-- number of the pipe that captures the last stage's stdout -/
  capOut : Option Nat := none

/-- `run_pipeline` after the calculator / function / empty cases, for a line that is not a single builtin -/
def runPipeline (cfg : Cfg) (cmds : List Command) (capture bg : Bool) (t0 : Table) (np0 : Nat) : Result :=
  if bg ∧ capture then { shell := t0, np := np0, outcome := .failed }
  else
    let m := cmds.length - 1
    let (t1, np1, pipes, ok) := mkPipes cfg.lim m t0 np0 []
    if !ok then
      -- release fds that already created when errors occurred
      { shell := releasePipes t1 pipes, np := np1, outcome := .failed }
    else if !capture then
      let s := parentLoop cfg (none, none) capture bg none pipes cmds 0 { shell := t1, np := np1 }
      { shell := s.shell, np := s.np, outcome := .ran, children := s.children, fg := s.fg, fed := s.fed, hsFailed := s.hsFailed }
    else
      -- capture pipes (core.rs:188-216)
      match t1.pipe cfg.lim np1 with
      | none => { shell := releasePipes t1 pipes, np := np1, outcome := .failed }
      | some (t2, r, w) =>
        match t2.pipe cfg.lim (np1 + 1) with
        | none => { shell := releasePipes (closePair t2 (r, w)) pipes, np := np1 + 1, outcome := .failed }
        | some (t3, r', w') =>
          let s := parentLoop cfg (some (r, w), some (r', w')) capture bg none pipes cmds 0 { shell := t3, np := np1 + 2 }
          { shell := s.shell, np := s.np, outcome := .ran, children := s.children, fg := s.fg, fed := s.fed, hsFailed := s.hsFailed, capOut := some np1 }

/-! ### builtin output: `builtins::utils` -/

def closeOptFd (t : Table) : Option Nat → Table
  | some fd => t.close fd
  | none => t

/-- `_get_std_fds` (utils.rs:17-50, after `fix:` e06eb6a): one left-to-right walk; `1>&2` / `2>&1` duplicate the other
descriptor as it stands at that point (the shell's own 2 / 1 when it has not been redirected yet); a target that
cannot be opened is silently skipped (the slot becomes `None`).  Returns the table, the (stdout, stderr)
descriptors and the files opened. -/
def candFd (cfg : Cfg) (t : Table) (o e : Option Nat) (lg : List (Str × Nat)) (isOut : Bool) (op to : Str) :
    Table × Option Nat × List (Str × Nat) :=
  let mode := if op = ">>".toList then 2 else 1
  if isOut ∧ to = "&2".toList then
    match t.dup cfg.lim (e.getD 2) with
    | some (t1, fd) => (t1, some fd, lg)
    | none => (t, none, lg)
  else if !isOut ∧ to = "&1".toList then
    match t.dup cfg.lim (o.getD 1) with
    | some (t1, fd) => (t1, some fd, lg)
    | none => (t, none, lg)
  else if cfg.canWrite to then
    match t.openFile cfg.lim to mode with
    | some (t1, fd) => (t1, some fd, lg ++ [(to, mode)])
    | none => (t, none, lg)
  else (t, none, lg)

def getStdFdsGo (cfg : Cfg) : List Redir → Table → Option Nat → Option Nat → List (Str × Nat) →
    Table × Option Nat × Option Nat × List (Str × Nat)
  | [], t, o, e, lg => (t, o, e, lg)
  | (from_, op, to) :: rest, t, o, e, lg =>
    let isOut := from_ = "1".toList
    if !isOut ∧ from_ ≠ "2".toList then getStdFdsGo cfg rest t o e lg
    else
      let c := candFd cfg t o e lg isOut op to
      if isOut then getStdFdsGo cfg rest (closeOptFd c.1 o) c.2.1 e c.2.2
      else getStdFdsGo cfg rest (closeOptFd c.1 e) o c.2.1 c.2.2

def getStdFds (cfg : Cfg) (rs : List Redir) (t : Table) : Table × Option Nat × Option Nat × List (Str × Nat) :=
  getStdFdsGo cfg rs t none none []

structure Printed where
  t : Table
  /-- the object the text was written to (`none`: nothing could be written) -/
  target : Option Obj
  /-- files opened on the way, in order -/
  opened : List (Str × Nat)
  /-- the command was refused (reference semantics only: a target could not be opened) -/
  failed : Bool := false

/-- `_get_dupped_stdout_fd` / `_get_dupped_stderr_fd` + `print_stdout` / `print_stderr` (utils.rs:52-140): the other
stream's descriptor is closed; the text goes to this stream's descriptor, or to a `dup` of 1 / 2 when it was not
redirected; the `File` wrapper closes the descriptor when dropped -/
def finishPrint (cfg : Cfg) (err : Bool) (t1 : Table) (mine other : Option Nat) (lg : List (Str × Nat)) : Printed :=
  let t2 := closeOptFd t1 other
  match mine with
  | some fd => { t := t2.close fd, target := (t2 fd).map (fun en => en.obj), opened := lg }
  | none =>
    match t2.dup cfg.lim (if err then 2 else 1) with
    | some (t3, fd) => { t := t3.close fd, target := (t3 fd).map (fun en => en.obj), opened := lg }
    | none => { t := t2, target := none, opened := lg }

/-- `print_stdout` (err = false) / `print_stderr` (err = true) of a builtin that is the whole line -/
def builtinPrint (cfg : Cfg) (rs : List Redir) (err : Bool) (t : Table) : Printed :=
  let r := getStdFds cfg rs t
  if err then finishPrint cfg err r.1 r.2.2.1 r.2.1 r.2.2.2 else finishPrint cfg err r.1 r.2.1 r.2.2.1 r.2.2.2

end Cicada.Pipeline
