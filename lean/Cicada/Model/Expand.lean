import Cicada.Model.ParserLine
/-!
# Model of the expansion passes of `src/shell.rs` (368-1009)

`expand_alias`, `expand_home`, `expand_env`, `expand_brace`, `expand_glob`, command substitution,
`expand_brace_range`, `do_expansion`.  External behaviour (variables, aliases, `$HOME`, pid, what a
glob matches, what running a command prints) is the record `Env`; every theorem quantifies over it.
-/
namespace Cicada

/-! ## the `regex` crate's replacement-template syntax (regex-automata `util::interpolate`) -/

def isCapLetter (c : Char) : Bool := isDigitA c || isAlphaA c || c = '_'

/-- `cap.parse::<usize>()`: decimal digits only, fits in 64 bits -/
def parseUsize (s : Str) : Option Nat :=
  if s ≠ [] ∧ s.all isDigitA then
    let n := s.foldl (fun a c => a * 10 + (c.toNat - 48)) 0
    if n < 2 ^ 64 then some n else none
  else none

structure Caps where
  /-- numbered groups, 0 = whole match; `none` = group did not participate -/
  groups : List (Option Str)
  names : List (Str × Nat)

def Caps.byRef (c : Caps) (r : Str) : Str :=
  let idx : Option Nat := match parseUsize r with
    | some n => some n
    | none => (c.names.find? (fun p => p.1 = r)).map (·.2)
  match idx with
  | some n => ((c.groups.getD n none).getD [])
  | none => []

/-- expansion of a replacement template; fuel = length of the template (always enough) -/
def expandTemplateAux (caps : Caps) : Nat → Str → Str
  | 0, _ => []
  | _ + 1, [] => []
  | f + 1, c :: cs =>
    if c ≠ '$' then c :: expandTemplateAux caps f cs
    else match cs with
      | [] => ['$']
      | '$' :: cs' => '$' :: expandTemplateAux caps f cs'
      | '{' :: cs' =>
        let name := cs'.takeWhile (· ≠ '}')
        let rest := cs'.dropWhile (· ≠ '}')
        (match rest with
         | [] => '$' :: expandTemplateAux caps f cs          -- no closing brace: literal `$`
         | _ :: rest' => caps.byRef name ++ expandTemplateAux caps f rest')
      | d :: _ =>
        let name := cs.takeWhile isCapLetter
        if name = [] then '$' :: expandTemplateAux caps f (d :: cs.drop 1) -- = cs
        else caps.byRef name ++ expandTemplateAux caps f (cs.dropWhile isCapLetter)

def expandTemplate (caps : Caps) (t : Str) : Str := expandTemplateAux caps (t.length + 1) t

/-! ## the environment the passes read -/

structure Env where
  /-- `sh.envs` — shell-local variables -/
  vars : List (Str × Str) := []
  /-- the process environment (`std::env`) -/
  exported : List (Str × Str) := []
  /-- `sh.aliases` -/
  aliases : List (Str × Str) := []
  /-- `sh.funcs`: name ↦ body -/
  funcs : List (Str × Str) := []
  /-- `sh.previous_status` -/
  status : Int := 0
  /-- `getpid()` -/
  pid : Nat := 1
  /-- `glob::glob(pattern)`: `none` = pattern error, else the matching paths in the crate's order -/
  glob : Str → Option (List Str) := fun _ => some []
  /-- running a command line with captured output: `none` = `CommandLine::from_line` failed, else stdout -/
  runCmd : Str → Option Str := fun _ => some []

def lookup (l : List (Str × Str)) (k : Str) : Option Str := (l.find? (fun p => p.1 = k)).map (·.2)

def Env.home (e : Env) : Str := (lookup e.exported "HOME".toList).getD []
/-- `env::var(key)` then `sh.get_env(key)` (shell.rs:474-478) -/
def Env.value (e : Env) (k : Str) : Option Str :=
  match lookup e.exported k with
  | some v => some v
  | none => lookup e.vars k

/-! ## expand_alias (shell.rs:695-732) -/

def expandAliasGo (e : Env) : Bool → List Tok → List Tok
  | _, [] => []
  | isHead, (sep, text) :: rest =>
    if sep = [] ∧ text = ['|'] then (sep, text) :: expandAliasGo e true rest
    else if isHead ∧ text = "xargs".toList then (sep, text) :: expandAliasGo e true rest
    else if !isHead then (sep, text) :: expandAliasGo e false rest
    else match lookup e.aliases text with
      | none => (sep, text) :: expandAliasGo e false rest
      | some v =>
        -- `get_alias_content` returns None for an empty value: the token stays
        if v = [] then (sep, text) :: expandAliasGo e false rest
        else parseLine v ++ expandAliasGo e false rest

def expandAlias (e : Env) (ts : List Tok) : List Tok := expandAliasGo e true ts

/-! ## expand_home (shell.rs:734-759) -/

/-- `Regex::new(r"^~(?P<tail>.*)").replace_all(text, format!("{}$tail", home))` -/
def expandHomeText (home : Str) (text : Str) : Str :=
  match text with
  | '~' :: rest =>
    let tail := rest.takeWhile (· ≠ '\n')
    let after := rest.dropWhile (· ≠ '\n')
    expandTemplate { groups := [some ('~' :: tail), some tail], names := [("tail".toList, 1)] } (home ++ "$tail".toList) ++ after
  | _ => text

def expandHome (e : Env) (ts : List Tok) : List Tok :=
  ts.map (fun (sep, text) => if sep = [] ∧ text.head? = some '~' then (sep, expandHomeText e.home text) else (sep, text))

/-! ## expand_env (shell.rs:441-487, 761-813) -/

def isKeyChar (c : Char) : Bool := isAlphaA c || isDigitA c || c = '_'

/-- `\$\{?[\$\?]\}?` occurs -/
def reDollarSpecial : Str → Bool
  | [] => false
  | c :: cs =>
    (c = '$' && (match cs with
      | d :: ds => d = '$' || d = '?' || (d = '{' && (match ds with
          | x :: _ => x = '$' || x = '?'
          | [] => false))
      | [] => false)) || reDollarSpecial cs

/-- `\$\{?[a-zA-Z_][a-zA-Z0-9_]*\}?` occurs -/
def reDollarName : Str → Bool
  | [] => false
  | c :: cs =>
    (c = '$' && (match cs with
      | d :: ds => isNameStart d || (d = '{' && (match ds with
          | x :: _ => isNameStart x
          | [] => false))
      | [] => false)) || reDollarName cs

/-- split `NAME rest` with NAME = `[a-zA-Z_][a-zA-Z0-9_]*`; returns the rest -/
def stripName : Str → Option Str
  | [] => none
  | c :: cs => if isNameStart c then some (cs.dropWhile isNameChar) else none

def noNl (s : Str) : Bool := s.all (· ≠ '\n')

/-- `^NAME=`.*`$` -/
def reAssignBackquote (t : Str) : Bool :=
  match stripName t with
  | some ('=' :: '`' :: r) => r ≠ [] && r.getLast? = some '`' && noNl r.dropLast
  | _ => false

/-- `^NAME=\$\(.*\)$` -/
def reAssignDollarParen (t : Str) : Bool :=
  match stripName t with
  | some ('=' :: '$' :: '(' :: r) => r ≠ [] && r.getLast? = some ')' && noNl r.dropLast
  | _ => false

/-- `^\$\(.+\)$` -/
def reWholeDollarParen (t : Str) : Bool :=
  match t with
  | '$' :: '(' :: r => r.length ≥ 2 && r.getLast? = some ')' && noNl r.dropLast
  | _ => false

/-- does `s` contain `$`, optional `{`, name start, with at least one more character after that position? -/
def hasDollarNameBeforeEnd : Str → Bool
  | [] => false
  | c :: cs =>
    (c = '$' && (match cs with
      | d :: ds => (isNameStart d && ds ≠ []) || (d = '{' && (match ds with
          | x :: xs => isNameStart x && xs ≠ []
          | [] => false))
      | [] => false)) || hasDollarNameBeforeEnd cs

/-- `='.*\$\{?NAME\}?.*'$` occurs: some `='` is followed (without newline up to the end) by a
`$NAME` form and the token ends with `'` after it -/
def reQuotedAssignWithVar : Str → Bool
  | [] => false
  | c :: cs =>
    (c = '=' && (match cs with
      | '\'' :: r => r.getLast? = some '\'' && noNl r && hasDollarNameBeforeEnd r
      | _ => false)) || reQuotedAssignWithVar cs

/-- `env_in_token` (shell.rs:761-786) -/
def envInToken (t : Str) : Bool :=
  if reDollarSpecial t then true
  else if !reDollarName t then false
  else if reAssignBackquote t || reAssignDollarParen t || reWholeDollarParen t then false
  else !reQuotedAssignWithVar t

def Env.keyValue (e : Env) (key : Str) : Str :=
  if key = ['?'] then showInt e.status
  else if key = ['$'] then showNat e.pid
  else (e.value key).getD []

/-- the key after `$` / `${`: longest `[A-Za-z0-9_]+`, else one of `$`, `?`; `[]` = none -/
def keySpan (s : Str) : Str × Str :=
  let name := s.takeWhile isKeyChar
  if name ≠ [] then (name, s.dropWhile isKeyChar)
  else match s with
    | '$' :: r => (['$'], r)
    | '?' :: r => (['?'], r)
    | _ => ([], s)

/-- what a `$` followed by `cs` means: `none` = a literal `$` (scanning goes on after it),
`some (key, rest)` = a reference to `key`, scanning goes on with `rest` -/
def dollarRef (cs : Str) : Option (Str × Str) :=
  match cs with
  | '{' :: r =>
    (match keySpan r with
     | (k :: ks, '}' :: rest') => some (k :: ks, rest')
     | _ => none)
  | _ =>
    (match keySpan cs with
     | ([], _) => none
     | (k, rest) => some (k, rest))

/-- `expand_envs_in_token`: one left-to-right pass, inserted values are not scanned again.
The fuel only makes the recursion structural; `length + 1` is always enough (`expandEnvs`). -/
def expandEnvsAux (e : Env) : Nat → Str → Str
  | 0, _ => []
  | _ + 1, [] => []
  | f + 1, c :: cs =>
    if c ≠ '$' then c :: expandEnvsAux e f cs
    else match dollarRef cs with
      | none => '$' :: expandEnvsAux e f cs
      | some (key, rest) => e.keyValue key ++ expandEnvsAux e f rest

def expandEnvs (e : Env) (t : Str) : Str := expandEnvsAux e (t.length + 1) t

/-- `expand_env` (shell.rs): tokens quoted with `'` or `` ` `` and tokens the gate rejects are kept -/
def expandEnv (e : Env) (ts : List Tok) : List Tok :=
  ts.map (fun (sep, text) =>
    if sep = ['`'] ∨ sep = ['\''] then (sep, text)
    else if !envInToken text then (sep, text)
    else (sep, expandEnvs e text))

/-! ## expand_brace (shell.rs:489-613) -/

/-- `\{[^ "']*,[^ "']*,?[^ "']*\}` occurs -/
def braceInner (c : Char) : Bool := c ≠ ' ' && c ≠ '"' && c ≠ '\''

/-- from just after a `{`: is there a `}` ahead, reachable over allowed characters, with a comma seen -/
def braceScan : Bool → Str → Bool
  | _, [] => false
  | comma, c :: cs =>
    if c = '}' ∧ comma then true
    else if braceInner c then braceScan (comma || c = ',') cs
    else false

def needExpandBrace : Str → Bool
  | [] => false
  | c :: cs => (c = '{' && braceScan false cs) || needExpandBrace cs

def prod (out g : List Str) : List Str := out.flatMap fun x => g.map fun y => x ++ y

mutual
/-- `brace_getitem`; fuel bounds the recursion (length + 1 suffices, see `Lemmas/Brace`) -/
def braceItem : Nat → List Str → Str → Nat → Option (List Str × Str)
  | 0, _, _, _ => none
  | _ + 1, out, [], _ => some (out, [])
  | f + 1, out, c :: cs, d =>
    if d > 0 ∧ (c = ',' ∨ c = '}') then some (out, c :: cs)
    else if c = '{' then
      match braceGroup f [] false cs (d + 1) with
      | none => none
      | some (some (grp, s')) => braceItem f (prod out grp) s' d
      | some none => braceItem f (out.map (· ++ [c])) cs d
    else if c = '\\' then
      match cs with
      | c2 :: cs2 => braceItem f (out.map (· ++ ['\\', c2])) cs2 d
      | [] => braceItem f (out.map (· ++ [c])) cs d
    else braceItem f (out.map (· ++ [c])) cs d
/-- `brace_getgroup` -/
def braceGroup : Nat → List Str → Bool → Str → Nat → Option (Option (List Str × Str))
  | 0, _, _, _, _ => none
  | _ + 1, _, _, [], _ => some none
  | f + 1, out, comma, c0 :: cs0, d =>
    match braceItem f [[]] (c0 :: cs0) d with
    | none => none
    | some (_, []) => some none
    | some (g, c :: cs) =>
      if c = '}' then
        (if comma then some (some (out ++ g, cs))
         else some (some ((out ++ g).map (fun x => '{' :: x ++ ['}']), cs)))
      else if c = ',' then braceGroup f (out ++ g) true cs d
      else braceGroup f (out ++ g) comma (c :: cs) d
end

/-- tag given to a token produced by brace / glob / range expansion -/
def tagBlank (t : Str) : Tok := (if t.contains ' ' then ['"'] else [], t)

def expandBrace (ts : List Tok) : Outcome (List Tok) :=
  match ts with
  | [] => .ok []
  | (sep, text) :: rest =>
    (expandBrace rest).bind (fun rest' =>
      if sep ≠ [] ∨ !needExpandBrace text then .ok ((sep, text) :: rest')
      else match braceItem (2 * text.length + 2) [[]] text 0 with
        | none => .diverge "brace-fuel"
        | some (items, _) => .ok (items.map tagBlank ++ rest'))

/-! ## expand_glob (shell.rs:368-439) -/

/-- `libs::path::basename` -/
def basename (p : Str) : Str := ((splitOnChar '/' p).getLast?).getD p

inductive GlobRes | unchanged | items (l : List Str) | abort

def globToken (e : Env) (sep text : Str) : GlobRes :=
  if sep ≠ [] ∨ !text.contains '*' then .unchanged
  else if (trim text).head? = some '\'' ∨ (trim text).head? = some '"' then .items [text]
  else
    let showHidden := startsWith (basename text) ['.', '*']
    match e.glob text with
    | none => .abort
    | some paths =>
      let kept := paths.filter (fun p =>
        let b := basename p
        !(b = ['.', '.'] || b = ['.']) && !(b.head? = some '.' && !showHidden))
      if kept = [] then .items [text] else .items kept

/-- `none` = the pass returned early because of a pattern error: the token list stays as it was -/
def expandGlobGo (e : Env) : List Tok → Option (List Tok)
  | [] => some []
  | (sep, text) :: rest =>
    match globToken e sep text with
    | .abort => none
    | .unchanged => (expandGlobGo e rest).map (fun r => (sep, text) :: r)
    | .items l => (expandGlobGo e rest).map (fun r => l.map tagBlank ++ r)

def expandGlob (e : Env) (ts : List Tok) : List Tok := (expandGlobGo e ts).getD ts

/-! ## expand_brace_range (shell.rs:615-693) -/

/-- parse `-?[0-9]+` prefix: (text, rest) -/
def takeInt (s : Str) : Option (Str × Str) :=
  let (sgn, r) := match s with
    | '-' :: r => (['-'], r)
    | _ => ([], s)
  let ds := r.takeWhile isDigitA
  if ds = [] then none else some (sgn ++ ds, r.dropWhile isDigitA)

/-- `\{(-?[0-9]+)\.\.(-?[0-9]+)(\.\.)?([0-9]+)?\}` matched at the head of `s` (after `{`):
(start text, end text, increment text, text after the closing brace) -/
def rangeAt (s : Str) : Option (Str × Str × Option Str × Str) :=
  match takeInt s with
  | none => none
  | some (a, r1) =>
    match r1 with
    | '.' :: '.' :: r2 =>
      (match takeInt r2 with
       | none => none
       | some (b, r3) =>
         -- `(\.\.)?([0-9]+)?\}` with backtracking
         let tryIncr (r : Str) : Option (Option Str × Str) :=
           let ds := r.takeWhile isDigitA
           match r.dropWhile isDigitA with
           | '}' :: after => some (if ds = [] then none else some ds, after)
           | _ => none
         (match r3 with
          | '.' :: '.' :: r4 =>
            (match tryIncr r4 with
             | some (i, after) => some (a, b, i, after)
             | none => none)
          | _ =>
            (match tryIncr r3 with
             | some (i, after) => some (a, b, i, after)
             | none => none)))
    | _ => none

/-- leftmost match of the range regex in `t`: (text before, start, end, increment, text after) -/
def findRangeGo : Str → Str → Option (Str × Str × Str × Option Str × Str)
  | _, [] => none
  | acc, c :: cs =>
    if c = '{' then
      match rangeAt cs with
      | some (a, b, i, after) => some (acc, a, b, i, after)
      | none => findRangeGo (acc ++ [c]) cs
    else findRangeGo (acc ++ [c]) cs

def findRange (t : Str) : Option (Str × Str × Str × Option Str × Str) := findRangeGo [] t

/-- `str::parse::<i32>()` on `-?[0-9]+` / `[0-9]+` -/
def parseI32 (s : Str) : Option Int :=
  let (neg, ds) := match s with
    | '-' :: r => (true, r)
    | _ => (false, s)
  if ds = [] then none else
  let n : Nat := ds.foldl (fun a c => a * 10 + (c.toNat - 48)) 0
  let z : Int := if neg then -(n : Int) else n
  if -(2 ^ 31 : Int) ≤ z ∧ z < (2 ^ 31 : Int) then some z else none

/-- the two `while` loops; they end when the next element would leave the i32 range -/
def rangeSeq (start stop incr : Int) : Nat → Int → List Str → List Str
  | 0, _, acc => acc
  | f + 1, n, acc =>
    if start > stop then
      if n ≥ stop then
        let n' := n - incr
        if n' < -(2 ^ 31 : Int) then acc ++ [showInt n]                 -- `checked_sub` fails: stop
        else rangeSeq start stop incr f n' (acc ++ [showInt n])
      else acc
    else
      if n ≤ stop then
        let n' := n + incr
        if n' ≥ (2 ^ 31 : Int) then acc ++ [showInt n]                  -- `checked_add` fails: stop
        else rangeSeq start stop incr f n' (acc ++ [showInt n])
      else acc

inductive RangeRes | unchanged | items (l : List Str) | abort

def rangeToken (sep text : Str) : RangeRes :=
  if sep ≠ [] then .unchanged else
  match findRange text with
  | none => .unchanged
  | some (pre, a, b, i, post) =>
    match parseI32 a, parseI32 b with
    | some s, some e =>
      let incr : Option Int := match i with
        | none => some 1
        | some ds => parseI32 ds
      (match incr with
       | none => .abort
       | some k =>
         let k := if k ≤ 1 then 1 else k
         let steps := ((if s > e then s - e else e - s) / k).toNat + 2
         .items ((rangeSeq s e k steps s []).map (fun n => pre ++ n ++ post)))
    | _, _ => .abort

def expandRangeGo : List Tok → Option (List Tok)
  | [] => some []
  | (sep, text) :: rest =>
    match rangeToken sep text with
    | .abort => none
    | .unchanged => (expandRangeGo rest).map (fun r => (sep, text) :: r)
    | .items l => (expandRangeGo rest).map (fun r => l.map tagBlank ++ r)

/-- `expand_brace_range`: a bound that does not fit an `i32` makes the pass return early (tokens unchanged) -/
def expandBraceRange (ts : List Tok) : List Tok := (expandRangeGo ts).getD ts

end Cicada
