import Cicada.Model.Subst
/-!
# Model of the `alias` / `unalias` builtins (src/builtins/alias.rs, unalias.rs) and the alias table
-/
namespace Cicada

/-- `sh.aliases` as an association list with map semantics (insert replaces) -/
def aliasInsert (A : List (Str × Str)) (n v : Str) : List (Str × Str) := (n, v) :: A.filter (fun p => p.1 ≠ n)
def aliasRemove (A : List (Str × Str)) (n : Str) : List (Str × Str) := A.filter (fun p => p.1 ≠ n)

/-- `[a-zA-Z0-9_\.-]` -/
def isAliasNameChar (c : Char) : Bool := isAlphaA c || isDigitA c || c = '_' || c = '.' || c = '-'

/-- `tools::unquote`: text of the first token of `parse_line` -/
def toolsUnquote (s : Str) : Str := ((parseLine s).head?.map (·.2)).getD []

structure BuiltinOut where
  status : Int := 0
  out : Str := []
  err : Str := []

def aliasLine (n v : Str) : Str := "alias ".toList ++ n ++ "='".toList ++ v ++ "'".toList

/-- `builtins::alias::run` on the command's tokens; the listing is in map order (sorted here by name, as
the harness sorts it) -/
def aliasBuiltin (A : List (Str × Str)) (tokens : List Tok) (sortedNames : List (Str × Str)) : List (Str × Str) × BuiltinOut :=
  match tokens with
  | [_] => (A, { out := joinWith ['\n'] (sortedNames.map (fun p => aliasLine p.1 p.2)) })
  | [_, (_, input)] =>
    if input ≠ [] ∧ input.all isAliasNameChar then
      match lookup A input with
      | some v => if v = [] then (A, { status := 1, err := "cicada: alias: ".toList ++ input ++ ": not found".toList })
                  else (A, { out := aliasLine input v })
      | none => (A, { status := 1, err := "cicada: alias: ".toList ++ input ++ ": not found".toList })
    else
      let name := input.takeWhile isAliasNameChar
      match input.dropWhile isAliasNameChar with
      | '=' :: rest =>
        if name ≠ [] ∧ noNl rest then
          let value := if rest.head? = some '"' ∨ rest.head? = some '\'' then toolsUnquote rest else rest
          (aliasInsert A (toolsUnquote name) value, {})
        else (A, {})
      | _ => (A, {})
  | _ => (A, { status := 1, err := "alias syntax error: usage: alias foo='echo foo'".toList })

def unaliasBuiltin (A : List (Str × Str)) (tokens : List Tok) : List (Str × Str) × BuiltinOut :=
  match tokens with
  | [_, (_, input)] =>
    if (lookup A input).isSome then (aliasRemove A input, {})
    else (A, { status := 1, err := "cicada: unalias: ".toList ++ input ++ ": not found".toList })
  | _ => (A, { status := 1, err := "cicada: unalias: syntax error".toList })

end Cicada
