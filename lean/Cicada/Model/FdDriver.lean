import Cicada.Spec.Fd
import Cicada.Model.Jobs
/-!
# Wire format of the `fdsess` stream (process-level descriptor sessions; serves C02, C04, C08)
-/
namespace Cicada.FdDriver
open Cicada Cicada.Codec Cicada.Kernel Cicada.Pipeline Cicada.FdSession

def parseItems (s : String) : List Item :=
  if s = "-" ∨ s = "" then [] else
  (s.splitOn ";").filterMap (fun p => match p.splitOn ":" with
    | ["P", l] => some (.plain (unhex l))
    | ["S", o, i] => some (.subst (unhex o) (unhex i))
    | _ => none)

def strSet (s : String) : List Str := if s = "-" ∨ s = "" ∨ s = "[]" then [] else (s.splitOn ",").map unhex

def baseCfg (unw unr nf : List Str) : Cfg :=
  { lim := 1024,
    canWrite := fun p => !unw.contains p,
    canRead := fun p => !unr.contains p,
    isBuiltin := fun n => Generated.builtins.contains (String.ofList n),
    found := fun n => !nf.contains n }

/-- what descriptor exhaustion does to this launch according to the model -/
def modelPipeFails (cfg : Cfg) (cmds : List Command) (capture bg : Bool) (t : Table) (np : Nat) : SpecFd.PipeFailure :=
  let r := runPipeline cfg cmds capture bg t np
  { upfront := (match r.outcome with | .failed => !(bg ∧ capture) | _ => false), stages := r.hsFailed }

structure Out where
  m : String
  s : String
  cls : String := "-"

def isDupRedir (r : Redir) : Bool := r.2.2 = "&1".toList ∨ r.2.2 = "&2".toList

/-- what kind of line an item is (used to name the finding class of the first item on which model and
reference semantics part ways) -/
def kindOfLine (cfg : Cfg) (unw : List Str) (line : Str) (capture : Bool) : String :=
  match planOfTokens (parseLine line) with
  | .error _ => "plan-error"
  | .ok p =>
    let pre := if capture then "capture-" else ""
    if p.commands.any (fun c => (SpecFd.attachedFrom c).tokens.length ≠ c.tokens.length) then "attached-stdin" else
    match p.commands with
    | [] => pre ++ "empty"
    | [c] =>
      if cfg.isBuiltin c.name then
        if c.redirectsTo.any (fun r => unw.contains r.2.2) then pre ++ "builtin-unopenable"
        else if c.redirectsTo.any isDupRedir then pre ++ "builtin-dup"
        else pre ++ "builtin-other"
      else if capture ∧ c.redirectsTo.any isDupRedir then "capture-dup"
      else if capture ∧ c.redirectsTo ≠ [] then "capture-redirect"
      else pre ++ "single-other"
    | cs =>
      match cs.getLast? with
      | some c =>
        if capture ∧ c.redirectsTo.any isDupRedir then "capture-dup"
        else if capture ∧ c.redirectsTo ≠ [] then "capture-redirect"
        else pre ++ "pipeline-other"
      | none => pre ++ "pipeline-other"

def kindOfItem (cfg : Cfg) (unw : List Str) : Item → String
  | .plain l => kindOfLine cfg unw l false
  | .subst _ i => kindOfLine cfg unw i true

def sameWorld (a b : World) : Bool :=
  render a = render b && showTable a.shell = showTable b.shell && a.status = b.status && a.lim = b.lim

def classifyGo (cfg : Cfg) (unw : List Str) : List Item → World → World → String
  | [], _, _ => "-"
  | it :: rest, wm, ws =>
    let wm' := runItem modelLauncher cfg wm it
    let ws' := runItem (SpecFd.specLauncher modelPipeFails) cfg ws it
    if sameWorld wm' ws' then classifyGo cfg unw rest wm' ws' else kindOfItem cfg unw it

def parseFiles (s : String) : List (Str × List Str) :=
  if s = "-" ∨ s = "" then [] else
  (s.splitOn ";").filterMap (fun p => match p.splitOn "=" with
    | [n, ls] => some (unhex n, strSet ls)
    | _ => none)

def run (script : Bool) (lim : Nat) (items : List Item) (unw unr nf : List Str) (stdin : List Str) (files : List (Str × List Str)) : Out :=
  let cfg := baseCfg unw unr nf
  let w0 : World := { shell := initTable script, lim := if lim = 0 then 1024 else lim, stdinLeft := stdin, files := files }
  let m := render (runSession modelLauncher cfg w0 items)
  let sp := render (runSession (SpecFd.specLauncher modelPipeFails) cfg w0 items)
  { m := m, s := sp, cls := if m = sp then "-" else classifyGo cfg unw items w0 w0 }

/-- stream `fdorder`: the pipeline's stages finish in the given order with the given statuses (`e<code>` / `s<sig>`);
M = what `wait_fg_job` (Model/Jobs.lean) returns on that queue, S = the last stage's status -/
def orderRun (codes : List String) (order : List Nat) : String × String :=
  let n := codes.length
  let pids := (List.range n).map (· + 100)
  let evOf := fun (i : Nat) => match (codes.getD i "e0").toList with
    | 's' :: v => Jobs.Ev.killed (100 + i) (Int.ofNat (natOfStr v))
    | _ :: v => Jobs.Ev.exited (100 + i) (Int.ofNat (natOfStr v))
    | [] => Jobs.Ev.exited (100 + i) 0
  let evs := order.map evOf
  let m := (Jobs.waitFg { pending := evs } 100 pids).2
  let sp := (evOf (n - 1)).status
  (s!"S:{m}", s!"S:{sp}")

end Cicada.FdDriver
