import Cicada.Model.Subst
/-!
# Model of the script path of `src/scripting.rs`: positional-parameter expansion (153-222)
-/
namespace Cicada

def isArgKeyChar (c : Char) : Bool := isDigitA c || c = '@'

/-- `\$\{?[0-9@]+\}?` occurs (`is_args_in_token`) -/
def isArgsInToken : Str → Bool
  | [] => false
  | c :: cs =>
    (c = '$' && (match cs with
      | d :: ds => isArgKeyChar d || (d = '{' && (match ds with
          | x :: _ => isArgKeyChar x
          | [] => false))
      | [] => false)) || isArgsInToken cs

/-- `([0-9]+|@)` at the head of `s`: (key, rest) -/
def argKey (s : Str) : Option (Str × Str) :=
  match s with
  | '@' :: r => some (['@'], r)
  | _ =>
    let ds := s.takeWhile isDigitA
    if ds = [] then none else some (ds, s.dropWhile isDigitA)

/-- `\}?` -/
def dropBrace : Str → Str
  | '}' :: r => r
  | s => s

/-- at a `$`: `\{?([0-9]+|@)\}?` — (key, rest after the optional closing brace).  If `{` is not followed
by a key the regex retries without consuming it and then fails on the `{`. -/
def argRefAt (cs : Str) : Option (Str × Str) :=
  match cs with
  | '{' :: r => (argKey r).map (fun (k, r') => (k, dropBrace r'))
  | _ => (argKey cs).map (fun (k, r') => (k, dropBrace r'))

/-- leftmost reference: (head, key, tail) of `^(.*?)\$\{?([0-9]+|@)\}?(.*)$` -/
def findArgRef : Str → Str → Option (Str × Str × Str)
  | _, [] => none
  | acc, c :: cs =>
    if c = '$' then
      match argRefAt cs with
      | some (k, r) => some (acc, k, r)
      | none => findArgRef (acc ++ [c]) cs
    else findArgRef (acc ++ [c]) cs

def argValue (args : List Str) (key : Str) : Str :=
  if key = ['@'] then joinWith [' '] (args.drop 1)
  else match parseUsize key with
    | some i => args.getD i []
    | none => []

/-- `expand_args_for_single_token`; the loop continues on the tail, inserted values are not scanned -/
def expandArgsTokAux (args : List Str) : Nat → Str → Str
  | 0, t => t
  | f + 1, t =>
    if !noNl t then t else
    match findArgRef [] t with
    | none => t
    | some (head, key, tail) =>
      head ++ argValue args key ++ (if tail = [] then [] else expandArgsTokAux args f tail)

def expandArgsTok (args : List Str) (t : Str) : Str := expandArgsTokAux args (t.length + 1) t

def expandArgsInTokens (args : List Str) (ts : List Tok) : List Tok :=
  ts.map (fun (sep, text) =>
    if sep = ['`'] ∨ sep = ['\''] ∨ !isArgsInToken text then (sep, text) else (sep, expandArgsTok args text))

/-- `scripting::expand_args`: what a script line becomes before it is handed to `run_command_line` -/
def expandArgs (args : List Str) (line : Str) : Str :=
  tokensToLine (expandArgsInTokens args (parseLine line))

end Cicada
