import Cicada.Model.Calc
/-!
# Float mode of the calculator (`calculator::eval_float`, src/calculator/mod.rs) on the exactly representable class

Lean's `Float` is opaque to the kernel and IEEE results are not compared in general.  But on lines whose literals are dyadic
rationals (`1.5`, `0.25`, `3.`, `.5`, integers) combined with `+ - *` only, every intermediate value is a dyadic rational
`n / 2^e`; as long as `|n| < 2^53` the `f64` arithmetic is EXACT, and Rust's `{}` prints the exact (and shortest) decimal
expansion.  `floatText` computes that text, or `none` outside the class (division, powers, non-dyadic literals, a zero or too
long result).  It is what decides the integer / floating-point MODE observably: `(1.5)+1` must print `2.5`.
-/
namespace Cicada.Calc

structure Dy where
  n : Int
  e : Nat
  deriving Repr, DecidableEq

/-- strip common factors of two -/
def Dy.norm : Nat → Dy → Dy
  | 0, d => d
  | f + 1, d => if d.e > 0 ∧ d.n % 2 = 0 then Dy.norm f { n := d.n / 2, e := d.e - 1 } else d

def Dy.fits (d : Dy) : Bool := d.n.natAbs < 2 ^ 53

def Dy.add (a b : Dy) : Dy :=
  let e := max a.e b.e
  Dy.norm 64 { n := a.n * 2 ^ (e - a.e) + b.n * 2 ^ (e - b.e), e := e }
def Dy.neg (a : Dy) : Dy := { a with n := -a.n }
def Dy.mul (a b : Dy) : Dy := Dy.norm 128 { n := a.n * b.n, e := a.e + b.e }

/-- `str::parse::<f64>()` of a calculator literal, when the value is a dyadic rational -/
def parseDy (t : Str) : Option Dy :=
  let (neg, body) := match t with
    | '-' :: r => (true, r)
    | '+' :: r => (false, r)
    | _ => (false, t)
  let ip := body.takeWhile isDigitA
  let rest := body.dropWhile isDigitA
  let fp : Option Str := match rest with
    | [] => some []
    | '.' :: r => if r.all isDigitA then some r else none
    | _ => none
  match fp with
  | none => none
  | some fr =>
    if ip = [] ∧ fr = [] then none else
    let toN (s : Str) : Nat := s.foldl (fun a c => a * 10 + (c.toNat - 48)) 0
    let k := fr.length
    let num := toN ip * 10 ^ k + toN fr
    if num % 5 ^ k ≠ 0 then none else
    let d := Dy.norm 64 { n := (if neg then -1 else 1) * Int.ofNat (num / 5 ^ k), e := k }
    if d.fits then some d else none

def applyDy (o : Op) (l r : Dy) : Option Dy :=
  let v : Option Dy := match o with
    | .add => some (l.add r)
    | .sub => some (l.add r.neg)
    | .mul => some (l.mul r)
    | _ => none
  v.bind (fun d => if d.fits then some d else none)

def evalTreeDy : E Dy → Option Dy
  | .atom v => some v
  | .bin o l r => (evalTreeDy l).bind (fun a => (evalTreeDy r).bind (fun b => applyDy o a b))

mutual
def evalTermDy : Term → Option Dy
  | .num t => parseDy t
  | .paren f => evalFlatDy f
def evalFlatDy : Flat → Option Dy
  | .mk first rest =>
    (evalTermDy first).bind (fun v0 => (evalTailDy rest).bind (fun vs =>
      (pratt v0 vs).bind evalTreeDy))
def evalTailDy : Tail → Option (List (Op × Dy))
  | .nil => some []
  | .cons o t rest => (evalTermDy t).bind (fun v => (evalTailDy rest).bind (fun vs => some ((o, v) :: vs)))
end

def natDigits (n : Nat) : Str := (toString n).toList

/-- Rust's `{}` for an exactly representable `f64` that is not zero: no exponent, no trailing `.0` -/
def showDy (d : Dy) : Option Str :=
  if d.n = 0 then none else
  let a := d.n.natAbs
  let sign : Str := if d.n < 0 then ['-'] else []
  if d.e = 0 then some (sign ++ natDigits a) else
  let scaled := a * 5 ^ d.e                  -- a / 2^e = scaled / 10^e
  let ip := scaled / 10 ^ d.e
  let fr := scaled % 10 ^ d.e
  let frs := natDigits fr
  let frs := List.replicate (d.e - frs.length) '0' ++ frs
  let text := sign ++ natDigits ip ++ ['.'] ++ frs
  if (natDigits ip).length + d.e ≤ 15 then some text else none

/-- the text `run_calculator` prints for a float-mode line of the exact class -/
def floatText (f : Flat) : Option Str := (evalFlatDy f).bind showDy

end Cicada.Calc
