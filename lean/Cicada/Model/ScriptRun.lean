import Cicada.Model.Locust
import Cicada.Model.Script
/-!
# Model of the script interpreter `src/scripting.rs` (run_lines, run_exp, run_exp_if, run_exp_test_br,
run_exp_for, run_exp_while) over pest's pair tree

What running one line does is a parameter (`Sem`): `runLine` is `execute::run_command_line` on the
line after positional-parameter expansion — it returns the status of the last pipeline it ran, if any.
-/
namespace Cicada
open Cicada.Locust

structure Sem (σ : Type) where
  /-- `run_command_line(sh, line)`: new state and the status of the last result (none: nothing ran) -/
  runLine : σ → Str → σ × Option Int
  /-- `sh.set_env(name, value)` -/
  setVar : σ → Str → Str → σ
  /-- the word list of a `for` head: `expand_line_to_toknes` then whitespace splitting of unquoted tokens -/
  words : σ → Str → List Str
  /-- `sh.exit_on_error` -/
  exitOnError : σ → Bool

/-- result of a block: state, status of the last result so far, `continue` met, `break` met -/
structure RunRes (σ : Type) where
  st : σ
  last : Option Int
  cont : Bool := false
  brk : Bool := false

def firstKid (t : PT) (rule : String) : Option PT := t.kids.find? (fun k => k.rule = rule)

mutual
/-- `run_exp`: the children of an EXP / EXP_BODY pair -/
def runExp {σ} (sem : Sem σ) (args : List Str) : Nat → List PT → Bool → σ → Option Int → Outcome (RunRes σ)
  | 0, _, _, _, _ => .diverge "script-fuel"
  | _ + 1, [], _, st, last => .ok { st := st, last := last }
  | f + 1, p :: rest, inLoop, st, last =>
    let line := trim p.text
    if line = [] then runExp sem args f rest inLoop st last else
    if p.rule = "CMD" then
      if line = "continue".toList then
        (if inLoop then .ok { st := st, last := last, cont := true } else runExp sem args f rest inLoop st last)
      else if line = "break".toList then
        (if inLoop then .ok { st := st, last := last, brk := true } else runExp sem args f rest inLoop st last)
      else
        let (st', r) := sem.runLine st (expandArgs args line)
        let last' := match r with
          | some x => some x
          | none => last
        match last' with
        | some s => if s ≠ 0 ∧ sem.exitOnError st' then .ok { st := st', last := last' }
                    else runExp sem args f rest inLoop st' last'
        | none => runExp sem args f rest inLoop st' last'
    else if p.rule = "EXP_IF" then
      (runIf sem args f p.kids inLoop st last).bind (fun r =>
        if r.cont then .ok { r with cont := true, brk := false }
        else if r.brk then .ok { r with cont := false, brk := true }
        else runExp sem args f rest inLoop r.st r.last)
    else if p.rule = "EXP_FOR" then
      (runFor sem args f p st last).bind (fun r => runExp sem args f rest inLoop r.st r.last)
    else if p.rule = "EXP_WHILE" then
      (runWhile sem args f p st last).bind (fun r => runExp sem args f rest inLoop r.st r.last)
    else runExp sem args f rest inLoop st last

/-- `run_exp_test_br` on one branch: (result, passed) -/
def runBranch {σ} (sem : Sem σ) (args : List Str) : Nat → PT → Bool → σ → Option Int → Outcome (RunRes σ × Bool)
  | 0, _, _, _, _ => .diverge "script-fuel"
  | f + 1, br, inLoop, st, last =>
    -- heads first (IF_HEAD / IF_ELSEIF_HEAD / WHILE_HEAD run their TEST), KW_ELSE passes, then the body
    let head := br.kids.find? (fun k => k.rule = "IF_HEAD" ∨ k.rule = "IF_ELSEIF_HEAD" ∨ k.rule = "WHILE_HEAD")
    let isElse := (br.kids.find? (fun k => k.rule = "KW_ELSE")).isSome
    let (st1, last1, pass) : σ × Option Int × Bool :=
      match head with
      | some h =>
        (match h.kids.head? with
         | some t =>
           let (st', r) := sem.runLine st (expandArgs args (trim t.text))
           (st', (match r with | some x => some x | none => last), r = some 0)
         | none => (st, last, false))
      | none => (st, last, isElse)
    match firstKid br "EXP_BODY" with
    | none => .ok ({ st := st1, last := last1 }, pass)
    | some body =>
      if !pass then .ok ({ st := st1, last := last1 }, false)
      else (runExp sem args f body.kids inLoop st1 last1).map (fun r => (r, true))

/-- `run_exp_if`: branches in order, stop at the first that passed -/
def runIf {σ} (sem : Sem σ) (args : List Str) : Nat → List PT → Bool → σ → Option Int → Outcome (RunRes σ)
  | 0, _, _, _, _ => .diverge "script-fuel"
  | _ + 1, [], _, st, last => .ok { st := st, last := last }
  | f + 1, br :: rest, inLoop, st, last =>
    (runBranch sem args f br inLoop st last).bind (fun (r, passed) =>
      if passed then .ok r else runIf sem args f rest inLoop r.st r.last)

/-- `run_exp_for` -/
def runFor {σ} (sem : Sem σ) (args : List Str) : Nat → PT → σ → Option Int → Outcome (RunRes σ)
  | 0, _, _, _ => .diverge "script-fuel"
  | f + 1, p, st, last =>
    let head := firstKid p "FOR_HEAD"
    let init := head.bind (fun h => firstKid h "FOR_INIT")
    let var : Str := ((init.bind (fun i => firstKid i "FOR_VAR")).map (fun v => trim v.text)).getD []
    let ws : List Str := match init.bind (fun i => firstKid i "TEST") with
      | some t => sem.words st (trim t.text)
      | none => []
    match firstKid p "EXP_BODY" with
    | none => .ok { st := st, last := last }
    | some body => forLoop sem args f var body.kids ws st last

def forLoop {σ} (sem : Sem σ) (args : List Str) : Nat → Str → List PT → List Str → σ → Option Int → Outcome (RunRes σ)
  | 0, _, _, _, _, _ => .diverge "script-fuel"
  | _ + 1, _, _, [], st, last => .ok { st := st, last := last }
  | f + 1, var, body, w :: ws, st, last =>
    (runExp sem args f body true (sem.setVar st var w) last).bind (fun r =>
      if r.brk then .ok { st := r.st, last := r.last } else forLoop sem args f var body ws r.st r.last)

/-- `run_exp_while` -/
def runWhile {σ} (sem : Sem σ) (args : List Str) : Nat → PT → σ → Option Int → Outcome (RunRes σ)
  | 0, _, _, _ => .diverge "script-fuel"
  | f + 1, p, st, last =>
    (runBranch sem args f p true st last).bind (fun (r, passed) =>
      if !passed ∨ r.brk then .ok { st := r.st, last := r.last } else runWhile sem args f p r.st r.last)
end

/-- `run_lines`: parse, then run the top-level pairs one by one (each with `in_loop = false`) -/
def runLines {σ} (sem : Sem σ) (args : List Str) (fuel : Nat) (text : Str) (st : σ) : Outcome (Option (RunRes σ)) :=
  match parseLines text with
  | none => .ok none
  | some t => (runExp sem args fuel t.kids false st none).map some

end Cicada
