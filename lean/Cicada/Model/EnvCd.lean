import Cicada.Model.Subst
/-!
# Model of variables, exported environment and working directory
(src/shell.rs set_env/get_env/remove_env, src/execute.rs set_shell_vars, src/core.rs child environment,
src/builtins/{export,unset,read,cd}.rs, src/tools.rs split_into_fields)

The file system is a parameter: `fs dirTo` says what `cd` finds at the (absolute, not yet canonical) path.
-/
namespace Cicada.EnvCd

inductive FsRes
  | missing
  | notDir
  | dir (canon : Str)
  deriving Repr, DecidableEq

structure St where
  vars : List (Str × Str) := []        -- sh.envs
  exported : List (Str × Str) := []    -- process environment
  cwd : Str := []
  prev : Str := []                     -- sh.previous_dir
  deriving Repr

def put (l : List (Str × Str)) (k v : Str) : List (Str × Str) := (k, v) :: l.filter (·.1 ≠ k)
def del (l : List (Str × Str)) (k : Str) : List (Str × Str) := l.filter (·.1 ≠ k)

/-- `Shell::set_env`: an exported name is updated in the environment, otherwise a shell variable is set -/
def setEnv (s : St) (n v : Str) : St :=
  if (lookup s.exported n).isSome then { s with exported := put s.exported n v } else { s with vars := put s.vars n v }

/-- what `$N` expands to (`env_value`: the environment first, then shell variables) -/
def expandsTo (s : St) (n : Str) : Str :=
  match lookup s.exported n with
  | some v => v
  | none => (lookup s.vars n).getD []

/-- what a child started now sees for N; `extra` = the `NAME=v` pairs written before the command -/
def childSees (s : St) (extra : List (Str × Str)) (n : Str) : Option Str :=
  match lookup extra n with
  | some v => some v
  | none => lookup s.exported n

/-- `^[a-zA-Z_][a-zA-Z0-9_-]*$` -/
def unsetNameOk : Str → Bool
  | [] => false
  | c :: cs => isNameStart c && cs.all (fun x => isNameChar x || x = '-')

/-- `str::split(&[chars])`: split at every single separator character -/
def splitAtGo (seps : Str) : Str → Str → List Str
  | acc, [] => [acc]
  | acc, c :: cs => if seps.contains c then acc :: splitAtGo seps [] cs else splitAtGo seps (acc ++ [c]) cs

/-- the IFS characters: per-command pairs, then shell variable, then environment; empty = default -/
def ifsChars (s : St) (extra : List (Str × Str)) : Str :=
  match lookup extra "IFS".toList with
  | some v => v
  | none => match lookup s.vars "IFS".toList with
    | some v => v
    | none => (lookup s.exported "IFS".toList).getD []

/-- `tools::split_into_fields` -/
def splitFields (s : St) (extra : List (Str × Str)) (line : Str) : List Str :=
  let ifs := ifsChars s extra
  if ifs = [] then (splitAtGo [' ', '\t', '\n'] [] line).filter (· ≠ []) else splitAtGo ifs [] line

def assignFields (s : St) (names : List Str) (fields : List Str) : St :=
  let k := names.length - 1
  let s1 := (List.range k).foldl (fun s i => setEnv s (names.getD i []) (fields.getD i [])) s
  setEnv s1 (names.getD k []) (joinWith [' '] (fields.drop k))

/-- `read NAMES <<< line`: first names get the fields, the last gets the rest joined by blanks -/
def readAssign (s : St) (extra : List (Str × Str)) (names : List Str) (line : Str) : St :=
  assignFields s names (splitFields s extra (trim (line ++ ['\n'])))

inductive Op
  | assign (n v : Str)
  | prefixed (n v : Str)
  | export (n v : Str)
  | unset (n : Str)
  | read (pre : List (Str × Str)) (names : List Str) (line : Str)
  | cd (args : List Str)
  /-- `NAME=v f` where `f` is a shell function: `core::try_run_func` runs the body in the shell itself and never looks at the
  command's assignment prefix (`cmd.envs`) -- no child is launched, nothing is set -/
  | prefixedFn (n v : Str)
  deriving Repr

/-- the path `cd` will look at: `-` is the previous directory, a relative path is appended to the cwd -/
def cdTarget (s : St) (raw : Str) : Option Str :=
  if raw = ['-'] then (if s.prev = [] then none else some s.prev)
  else if raw.head? = some '/' then some raw else some (s.cwd ++ '/' :: raw)

/-- exists-check, canonicalize, chdir; `previous_dir` and `PWD` move only when the directory changes -/
def cdTo (fs : Str → FsRes) (s : St) : Option Str → St × Int × List (Str × Str)
  | none => (s, 1, [])
  | some dirTo =>
    match fs dirTo with
    | .missing => (s, 1, [])
    | .notDir => (s, 1, [])
    | .dir canon =>
      if s.cwd ≠ canon then ({ s with cwd := canon, prev := s.cwd, exported := put s.exported "PWD".toList canon }, 0, [])
      else (s, 0, [])

/-- one operation: new state, status, and (for a prefixed command) the per-command pairs -/
def step (fs : Str → FsRes) (s : St) : Op → St × Int × List (Str × Str)
  | .assign n v => (setEnv s n v, 0, [])
  | .prefixed n v => (s, 0, [(n, v)])
  | .prefixedFn _ _ => (s, 0, [])
  | .export n v => ({ s with exported := put s.exported n v }, 0, [])
  | .unset n =>
    if unsetNameOk n then ({ s with vars := del s.vars n, exported := del s.exported n }, 0, []) else (s, 1, [])
  | .read pre names line => (readAssign s pre names line, 0, [])
  | .cd args =>
    match args with
    | _ :: _ :: _ => (s, 1, [])
    | [] => cdTo fs s (cdTarget s ((lookup s.exported "HOME".toList).getD []))
    | [a] => cdTo fs s (cdTarget s a)

/-! ## reference semantics: `read` with the default IFS splits at *runs* of blanks (stated directly) -/

def splitRunsGo : Str → Str → List Str
  | acc, [] => if acc = [] then [] else [acc]
  | acc, c :: cs =>
    if c = ' ' ∨ c = '\t' ∨ c = '\n' then (if acc = [] then splitRunsGo [] cs else acc :: splitRunsGo [] cs)
    else splitRunsGo (acc ++ [c]) cs
def splitRuns (line : Str) : List Str := splitRunsGo [] line

def readAssignSpec (s : St) (extra : List (Str × Str)) (names : List Str) (line : Str) : St :=
  let t := trim (line ++ ['\n'])
  if ifsChars s extra = [] then assignFields s names (splitRuns t) else assignFields s names (splitAtGo (ifsChars s extra) [] t)

def specStep (fs : Str → FsRes) (s : St) : Op → St × Int × List (Str × Str)
  | .read pre names line => (readAssignSpec s pre names line, 0, [])
  | op => step fs s op

/-! ## a finite file-system tree as the `fs` parameter (used by the driver; the theorems hold for any `fs`) -/

inductive Kind
  | dir
  | file
  | link (target : Str)
  deriving Repr, DecidableEq

abbrev Tree := List (Str × Kind)

def renderPath (comps : List Str) : Str := if comps = [] then ['/'] else (comps.map (fun c => '/' :: c)).flatten

def treeLookup (t : Tree) (p : Str) : Option Kind := (t.find? (fun e => e.1 = p)).map (·.2)

/-- kernel path walk: `cur` = canonical components so far, `rest` = components still to resolve -/
def walk (t : Tree) : Nat → List Str → List Str → FsRes
  | 0, _, _ => .missing                       -- ELOOP
  | _ + 1, cur, [] => .dir (renderPath cur)
  | f + 1, cur, c :: rest =>
    if c = [] ∨ c = ['.'] then walk t f cur rest
    else if c = ['.', '.'] then walk t f cur.dropLast rest
    else match treeLookup t (renderPath (cur ++ [c])) with
      | none => .missing
      | some .dir => walk t f (cur ++ [c]) rest
      | some .file => if rest = [] then .notDir else .missing
      | some (.link tg) =>
        let comps := splitOnChar '/' tg
        if tg.head? = some '/' then walk t f [] (comps ++ rest) else walk t f cur (comps ++ rest)

def treeFs (t : Tree) (path : Str) : FsRes := walk t 256 [] (splitOnChar '/' path)

end Cicada.EnvCd
