import Cicada.Model.ParserLine
/-!
# Model of `execute::run_command_line` (src/execute.rs:28-51)

`run` stands for `run_proc` (a parameter: what running one pipeline does to the shell state and
which status it yields).  The loop is transcribed as it is in the tree (after the `fix:` commit
that turned the two `break`s into `continue`s); `runItemsBreak` is the loop as it was in the
pinned snapshot, kept so that the refutation of the old behaviour stays machine-checked.
-/
namespace Cicada

def isListSep (t : Str) : Bool := t = [';'] || t = ['&', '&'] || t = ['|', '|']

structure LoopSt (σ : Type) where
  sh : σ
  status : Int := 0
  sep : Str := []
  /-- executed pipelines with the status each returned, oldest first (`cr_list`) -/
  trace : List (Str × Int) := []

/-- current loop: a short-circuited pipeline is skipped, evaluation continues -/
def runItems {σ} (run : σ → Str → σ × Int) : LoopSt σ → List Str → LoopSt σ
  | st, [] => st
  | st, t :: rest =>
    if isListSep t then runItems run { st with sep := t } rest
    else if st.sep = ['&', '&'] ∧ st.status ≠ 0 then runItems run st rest
    else if st.sep = ['|', '|'] ∧ st.status = 0 then runItems run st rest
    else
      let (sh', r) := run st.sh t
      runItems run { st with sh := sh', status := r, trace := st.trace ++ [(t, r)] } rest

/-- the loop of the pinned snapshot (32052dc): `break` on a short-circuit -/
def runItemsBreak {σ} (run : σ → Str → σ × Int) : LoopSt σ → List Str → LoopSt σ
  | st, [] => st
  | st, t :: rest =>
    if isListSep t then runItemsBreak run { st with sep := t } rest
    else if st.sep = ['&', '&'] ∧ st.status ≠ 0 then st
    else if st.sep = ['|', '|'] ∧ st.status = 0 then st
    else
      let (sh', r) := run st.sh t
      runItemsBreak run { st with sh := sh', status := r, trace := st.trace ++ [(t, r)] } rest

def runCommandLine {σ} (run : σ → Str → σ × Int) (sh : σ) (line : Str) : LoopSt σ :=
  runItems run { sh := sh } (lineToCmds line)

end Cicada
