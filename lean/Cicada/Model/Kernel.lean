import Cicada.Basic
/-!
# A small world of descriptor tables (what `pipe`, `close`, `dup`, `dup2`, `open`, `fork` and `exec` do)

Deliberately minimal: a descriptor table maps numbers to open-file descriptions plus the close-on-exec flag;
new descriptors take the lowest free number below the limit (`RLIMIT_NOFILE`); `fork` copies the table;
`exec` drops the close-on-exec entries.  Byte transport, blocking and signals are not modelled.

Facts about the real kernel / libraries encoded here (each is checked by the process-level streams, none is proved):
* `libs::pipes::pipe` = `pipe(2)`: both ends not close-on-exec; both descriptors are allocated or neither;
* `libs::dup` = `dup(2)`: lowest free number, flag cleared; `libs::dup2` clears the flag, is a no-op when source
  and target coincide, and fails (leaving the table unchanged) when the source is not open;
* Rust's `File::open` / `OpenOptions::open` set close-on-exec, and `into_raw_fd` keeps it.
-/
namespace Cicada.Kernel

/-- an open-file description as far as the properties can tell them apart -/
inductive Obj where
  /-- what the shell had open at descriptor `n` when the run started -/
  | inh (n : Nat)
  | pipeR (k : Nat)
  | pipeW (k : Nat)
  /-- a file opened during the run: mode 0 = read, 1 = write + truncate, 2 = append -/
  | file (path : Str) (mode : Nat)
  deriving DecidableEq, Repr

structure Ent where
  obj : Obj
  /-- close-on-exec -/
  cx : Bool := false
  deriving DecidableEq, Repr

/-- a descriptor table -/
def Table := Nat → Option Ent

namespace Table

def empty : Table := fun _ => none

def close (t : Table) (fd : Nat) : Table := fun x => if x = fd then none else t x

def set (t : Table) (fd : Nat) (e : Ent) : Table := fun x => if x = fd then some e else t x

/-- `dup2(src, dst)` -/
def dup2 (t : Table) (src dst : Nat) : Table :=
  match t src with
  | none => t
  | some e => if src = dst then t else t.set dst { e with cx := false }

def closeAll (t : Table) (fds : List Nat) : Table := fds.foldl close t

/-- lowest free descriptor number below `lim` -/
def lowestFree (t : Table) (lim : Nat) : Option Nat := (List.range lim).find? (fun i => (t i).isNone)

/-- allocate the lowest free number for `e`; `none` = EMFILE -/
def alloc (t : Table) (lim : Nat) (e : Ent) : Option (Table × Nat) :=
  match t.lowestFree lim with
  | none => none
  | some fd => some (t.set fd e, fd)

/-- `pipe(2)` creating pipe number `k`: (table, read end, write end) -/
def pipe (t : Table) (lim k : Nat) : Option (Table × Nat × Nat) :=
  match t.alloc lim { obj := .pipeR k } with
  | none => none
  | some (t1, r) =>
    match t1.alloc lim { obj := .pipeW k } with
    | none => none
    | some (t2, w) => some (t2, r, w)

/-- `dup(2)`: `none` = -1 (source not open, or EMFILE) -/
def dup (t : Table) (lim fd : Nat) : Option (Table × Nat) :=
  match t fd with
  | none => none
  | some e => t.alloc lim { e with cx := false }

/-- Rust `File::open` / `OpenOptions::open` followed by `into_raw_fd`: close-on-exec stays set -/
def openFile (t : Table) (lim : Nat) (path : Str) (mode : Nat) : Option (Table × Nat) :=
  t.alloc lim { obj := .file path mode, cx := true }

/-- what survives `execve` -/
def atExec (t : Table) : Table := fun x =>
  match t x with
  | some e => if e.cx then none else some e
  | none => none

/-- the open descriptors below `n`, ascending (for printing and for the executable checks) -/
def toList (t : Table) (n : Nat) : List (Nat × Ent) :=
  (List.range n).filterMap (fun i => (t i).map (fun e => (i, e)))

end Table
end Cicada.Kernel
