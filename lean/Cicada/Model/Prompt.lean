import Cicada.Model.ParserLine
/-!
# The interactive entry point: what `main.rs` does to a typed line before `run_command_line`
(`tools::extend_bangbang`, tools.rs:85-122; `shell::trim_multiline_prompts` only touches text holding a newline)
-/
namespace Cicada

/-- does `pat` occur in `s` -/
def hasInfix (pat : Str) : Str → Bool
  | [] => pat.isEmpty
  | c :: cs => startsWith (c :: cs) pat || hasInfix pat cs

/-- `Regex::replace_all("!!", prev)` on a token -/
def replaceBangs (prev : Str) : Str → Str
  | '!' :: '!' :: rest => prev ++ replaceBangs prev rest
  | c :: rest => c :: replaceBangs prev rest
  | [] => []

def trimEnd (s : Str) : Str := (s.reverse.dropWhile (fun c => c.isWhitespace)).reverse

/-- `extend_bangbang`: a line without `!!` (or typed before any command was recorded) is handed on unchanged; otherwise the
line is rebuilt from its tokens with `!!` replaced by the previous command outside single quotes -/
def extendBangbang (prev : Str) (line : Str) : Str :=
  if !hasInfix ['!', '!'] line then line
  else if prev.isEmpty then line
  else
    trimEnd ((parseLine line).flatMap (fun (sep, tok) =>
      sep ++ (if hasInfix ['!', '!'] tok ∧ sep ≠ ['\''] then replaceBangs prev tok else tok) ++ sep ++ [' ']))

end Cicada
