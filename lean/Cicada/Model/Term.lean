import Cicada.Model.Jobs
/-!
# Process groups, the terminal's foreground group and the shell's control flow around a job

Small-step model of `core::run_pipeline` / `run_single_program` (src/core.rs: fork, the parent's and the
child's `setpgid`, `give_terminal_to`, `insert_job`), `jobc::wait_fg_job`, `execute::run_proc`'s hand-back
(src/execute.rs:109-115), the `fg` / `bg` / `jobs` builtins, the poll at the end of every line
(src/main.rs:149-190) and of a small kernel: every child is running / stopped / zombie / reaped, belongs to a
process group, and carries the one status change `waitpid` would report for it next (Linux keeps one per
child: a later change replaces an unreported one).

The parent's steps, the children's own `setpgid` and the kernel's events are separate actions of one step
function, so that every interleaving is a path of the system.  The job table and the four parked maps are
`Jobs.Sh` of `Model/Jobs.lean`.
-/
namespace Cicada.Term
open Cicada.Jobs

/-- which code is modelled and in which setting it runs -/
structure Cfg where
  /-- the parent calls `setpgid(child, pgid)` too (src/core.rs, since `fix:` 59a1f03) -/
  parentSetpgid : Bool := true
  /-- `sh.has_terminal ∧ isatty(1)`: the interactive session the property is about -/
  interactive : Bool := true
  deriving Repr, DecidableEq

inductive PSt | running | stopped | zombie | reaped
  deriving DecidableEq, Repr

structure Proc where
  pid : Pid
  /-- pid of the first stage of its pipeline: the value of `*pgid` the child and the parent pass to `setpgid` -/
  first : Pid
  pgid : Pid
  st : PSt := .running
  /-- what `waitpid` reports for this child next -/
  note : Option Ev := none
  /-- a SIGINT received while stopped stays pending until the process is continued -/
  pendInt : Bool := false
  /-- the parent's `setpgid(pid, first)` has run -/
  psetDone : Bool := false
  /-- the child's own `setpgid(0, first)` has run -/
  csetDone : Bool := false
  deriving Repr, DecidableEq

def Proc.alive (p : Proc) : Bool := p.st = .running || p.st = .stopped

inductive Sig | int | tstp | kill | stop | cont
  deriving DecidableEq, Repr

/-- what a signal does to one process with default dispositions (the helpers of the sessions; a child before
`execve` has reset SIGTSTP to the default, src/core.rs:303) -/
def sigProc (p : Proc) (sg : Sig) : Proc :=
  match p.st with
  | .running =>
    (match sg with
     | .int => { p with st := .zombie, note := some (.killed p.pid 2) }
     | .kill => { p with st := .zombie, note := some (.killed p.pid 9) }
     | .tstp => { p with st := .stopped, note := some (.stopped p.pid 20) }
     | .stop => { p with st := .stopped, note := some (.stopped p.pid 19) }
     | .cont => p)
  | .stopped =>
    (match sg with
     | .kill => { p with st := .zombie, note := some (.killed p.pid 9), pendInt := false }
     | .int => { p with pendInt := true }
     | .cont =>
       if p.pendInt then { p with st := .zombie, note := some (.killed p.pid 2), pendInt := false }
       else { p with st := .running, note := some (.continued p.pid) }
     | .tstp => p
     | .stop => p)
  | _ => p

/-- `kill(-g, sg)` / the tty driver signalling its foreground group: every live member at once -/
def sigGroup (procs : List Proc) (g : Pid) (sg : Sig) : List Proc :=
  procs.map fun p => if p.pgid = g then sigProc p sg else p

def updProc (procs : List Proc) (pid : Pid) (f : Proc → Proc) : List Proc :=
  procs.map fun p => if p.pid = pid then f p else p

def findProc (procs : List Proc) (pid : Pid) : Option Proc := procs.find? (·.pid = pid)

/-- a process group exists while a process that was not reaped yet belongs to it -/
def groupExists (procs : List Proc) (g : Pid) : Bool := procs.any fun q => q.pgid = g && q.st ≠ .reaped

/-- Linux accepts `tcsetpgrp(fd, g)` when `g` is a group of the session or the pid of a process of the session
that has not been reaped (`session_of_pgrp` falls back to the pid) -/
def tcsetOk (procs : List Proc) (g : Pid) : Bool := procs.any fun q => (q.pgid = g || q.pid = g) && q.st ≠ .reaped

/-- `setpgid(p, g)`: needs `g = p` or an existing group -/
def setpgidOk (procs : List Proc) (pid g : Pid) : Bool := g = pid || groupExists procs g

/-! ### the shell's control state -/

inductive Phase
  | fork                 -- next: fork the stage at the head of `cmds`
  | pset (p : Pid)       -- next: the parent's `setpgid(p, pgid)`
  | give (p : Pid)       -- next (first stage only): `give_terminal_to(p)` iff has_terminal ∧ isatty ∧ ¬background
  | insert (p : Pid)     -- next: `insert_job(pgid, p, …)`
  deriving DecidableEq, Repr

/-- `run_pipeline` in progress -/
structure Launch where
  bg : Bool
  /-- command texts of the stages not yet completely handled -/
  cmds : List String
  idx : Nat := 0
  pgid : Pid := 0
  termGiven : Bool := false
  fgPids : List Pid := []
  phase : Phase := .fork
  deriving Repr, DecidableEq

/-- who called `wait_fg_job` -/
inductive Origin
  | launch (termGiven : Bool)   -- `run_pipeline`; `run_proc` hands the terminal back iff `termGiven`
  | fgBuiltin                   -- `builtins/fg.rs`; hands the terminal back itself
  deriving DecidableEq, Repr

/-- `wait_fg_job` in progress -/
structure Wait where
  gid : Pid
  pids : List Pid
  waited : Nat := 0
  origin : Origin
  deriving Repr, DecidableEq

inductive Mode
  | prompt                               -- `rl.read_line()`
  | launching (l : Launch)
  | waiting (w : Wait)
  | handback (gid : Pid) (o : Origin)    -- `wait_fg_job` has returned
  | eol                                  -- the line is done; `try_wait_bg_jobs(report = true)` comes next
  deriving Repr, DecidableEq

/-- what the shell prints about jobs (the text of `jobc::print_job`, reduced to its variable parts) -/
inductive Out
  | launched (id : Nat) (gid : Pid)                              -- `[id] gid` after a background launch
  | report (id : Nat) (gid : Pid) (word : String)                -- empty line + `[id] gid  word…   cmd`
  | row (id : Nat) (gid : Pid) (status : String) (amp : Bool)    -- one line of `jobs`
  | msg (m : String)                                             -- diagnostics of `fg` / `bg`
  deriving Repr, DecidableEq

structure State where
  /-- the shell's pid = its process group `s` -/
  shell : Pid
  /-- the terminal's foreground process group `t` -/
  tfg : Pid
  sh : Sh := {}
  /-- every child ever forked, in creation order -/
  procs : List Proc := []
  mode : Mode := .prompt
  /-- command text per group id (`Job.cmd`) -/
  cmds : List (Pid × String) := []
  /-- everything printed so far, oldest first -/
  out : List Out := []
  deriving Repr

def init (s : Pid) : State := { shell := s, tfg := s }

/-! ### job-table operations that print -/

/-- `jobc::mark_job_as_done`: prints iff the job became empty and is flagged background -/
def doneOut (s : Sh) (gid pid : Pid) (word : String) : List Out :=
  match findGid s gid with
  | some j => if (j.pids.erase pid).isEmpty && j.isBg then [.report j.id j.gid word] else []
  | none => []

/-- `jobc::mark_job_member_stopped` with `report`: prints iff afterwards every member is in the stopped set -/
def stopOut (s : Sh) (pid gid : Pid) (report : Bool) : List Out :=
  match findGid s gid with
  | some j =>
    let st := if j.stoppedSet.contains pid then j.stoppedSet else j.stoppedSet ++ [pid]
    if ({ j with stoppedSet := st } : Job).allStopped && report then [.report j.id j.gid "Stopped"] else []
  | none => []

/-- `shell::mark_job_as_running(gid, bg)` -/
def markRunning (s : Sh) (gid : Pid) (bg : Bool) : Sh :=
  match findGid s gid with
  | some j => updJob s j.id (fun x => { x with status := "Running", stoppedSet := [], isBg := bg })
  | none => s

/-- word printed for a process ended by signal `g` at the prompt-time poll (src/jobc.rs:219-231) -/
def killWord (g : Int) : String :=
  if g = 3 then "Quit" else if g = 2 then "Interrupt" else if g = 9 then "Killed" else if g = 15 then "Terminated" else "Killed"

/-- `jobc::try_wait_bg_jobs` after the parking, with what it prints; the table part is `Jobs.applyParked` -/
def applyParkedR (report : Bool) (s : Sh) : Sh × List Out :=
  s.jobs.foldl (fun acc job =>
    job.pids.foldl (fun (acc : Sh × List Out) pid =>
      let s := acc.1
      if s.reap.any (·.1 = pid) then
        let s1 := { s with reap := s.reap.filter (·.1 ≠ pid) }
        (removePid s1 job.gid pid, acc.2 ++ doneOut s1 job.gid pid "Done")
      else match s.kill.find? (·.1 = pid) with
      | some (_, g) =>
        let s1 := { s with kill := s.kill.filter (·.1 ≠ pid) }
        (removePid s1 job.gid pid, acc.2 ++ doneOut s1 job.gid pid (killWord g))
      | none =>
        if s.stop.contains pid then
          let s1 := { s with stop := s.stop.erase pid }
          (markMemberStopped s1 pid job.gid, acc.2 ++ stopOut s1 pid job.gid report)
        else if s.cont.contains pid then (markMemberContinued { s with cont := s.cont.erase pid } pid job.gid, acc.2)
        else acc) acc) (s, [])

/-- the status changes the kernel holds, in creation order of the children -/
def notes (procs : List Proc) : List Ev := procs.filterMap (·.note)

/-- a status change has been handed to `waitpid`: it is gone, a zombie is reaped -/
def consume (p : Proc) : Proc := { p with note := none, st := if p.st = .zombie then .reaped else p.st }

/-- `try_wait_bg_jobs(report)` with the signal handler off (the default): nothing happens on an empty table;
otherwise `handle_sigchld` drains every pending status change into the four maps, then they are applied -/
def pollR (report : Bool) (s : State) : State :=
  if s.sh.jobs.isEmpty then s else
  let parked := park { s.sh with pending := notes s.procs }
  let (sh', outs) := applyParkedR report parked
  { s with sh := sh', procs := s.procs.map consume, out := s.out ++ outs }

/-- lines of the `jobs` builtin (`jobc::get_job_line`) -/
def listing (s : Sh) : List Out :=
  s.jobs.map fun j => .row j.id j.gid j.status (j.isBg && j.status = "Running")

/-- the job `fg N` / `bg N` means: by id, else by group id -/
def resolveJob (s : Sh) (n : Nat) : Option Job :=
  match s.jobs.find? (·.id = n) with
  | some j => some j
  | none => findGid s n

/-! ### one notification inside `wait_fg_job` -/

/-- the body of the loop of `jobc::wait_fg_job` for the status change `e`; returns the new table, what was
printed, the new count and whether the loop goes round without testing the count (`continue`) -/
def waitEv (s : Sh) (w : Wait) (e : Ev) : Sh × List Out × Nat × Bool :=
  let pid := e.pid
  let isFg := w.pids.contains pid
  match e with
  | .continued _ => (if isFg then s else { s with cont := addOnce s.cont pid }, [], w.waited, true)
  | .exited _ c =>
    let waited := if isFg then w.waited + 1 else w.waited
    if isFg then (removePid s w.gid pid, doneOut s w.gid pid "Done", waited, false)
    else ({ s with reap := putMap s.reap pid c }, [], waited, false)
  | .killed _ g =>
    let waited := if isFg then w.waited + 1 else w.waited
    if isFg then (removePid s w.gid pid, doneOut s w.gid pid "Killed", waited, false)
    else ({ s with kill := putMap s.kill pid g }, [], waited, false)
  | .stopped _ _ =>
    let waited := if isFg then w.waited + 1 else w.waited
    if isFg then (markMemberStopped s pid w.gid, stopOut s pid w.gid true, waited, false)
    else (markMemberStopped { s with stop := addOnce s.stop pid } pid 0, [], waited, false)

/-! ### actions -/

inductive Act
  -- lines entered at the prompt
  | launch (bg : Bool) (cmds : List String)
  | fg (n : Nat) (explicit : Bool)     -- `fg N`; without an argument (`explicit = false`) any job of the table
  | bg (n : Nat) (explicit : Bool)
  | jobs
  | empty
  -- the parent inside `run_pipeline`
  | fork (pid : Pid)
  | psetpgid
  | give
  | insert
  | launched
  -- children and the kernel
  | csetpgid (pid : Pid)
  | exit (pid : Pid) (code : Int)
  | signal (pid : Pid) (sg : Sig)
  | ctrlC
  | ctrlZ
  -- waiting, and the way back to the prompt
  | waitGet (pid : Pid)
  | waitEchild
  | handback
  | poll
  deriving Repr, DecidableEq

def addCmd (cmds : List (Pid × String)) (gid : Pid) (c : String) : List (Pid × String) :=
  if cmds.any (·.1 = gid) then cmds.map fun (g, t) => if g = gid then (g, t ++ " | " ++ c) else (g, t)
  else cmds ++ [(gid, c)]

def stepFork (c : Cfg) (s : State) (l : Launch) (pid : Pid) : Option State :=
  match l.phase, l.cmds with
  | .fork, _ :: _ =>
    if pid = 0 || pid = s.shell || s.procs.any (·.pid = pid) then none else
    let first := if l.idx = 0 then pid else l.pgid
    let p : Proc := { pid := pid, first := first, pgid := s.shell }
    let ph : Phase := if c.parentSetpgid then .pset pid else if l.idx = 0 then .give pid else .insert pid
    some { s with procs := s.procs ++ [p], mode := .launching { l with pgid := first, phase := ph } }
  | _, _ => none

def stepPset (s : State) (l : Launch) : Option State :=
  match l.phase with
  | .pset p =>
    let procs := updProc s.procs p fun q =>
      if q.st ≠ .reaped && setpgidOk s.procs p q.first then { q with pgid := q.first, psetDone := true } else q
    some { s with procs := procs, mode := .launching { l with phase := if l.idx = 0 then .give p else .insert p } }
  | _ => none

def stepGive (c : Cfg) (s : State) (l : Launch) : Option State :=
  match l.phase with
  | .give p =>
    if c.interactive && !l.bg then
      if tcsetOk s.procs p then some { s with tfg := p, mode := .launching { l with termGiven := true, phase := .insert p } }
      else some { s with mode := .launching { l with termGiven := false, phase := .insert p } }
    else some { s with mode := .launching { l with phase := .insert p } }
  | _ => none

def stepInsert (c : Cfg) (s : State) (l : Launch) : Option State :=
  match l.phase, l.cmds with
  | .insert p, cmd :: rest =>
    let l' : Launch := { l with cmds := rest, idx := l.idx + 1, phase := .fork, fgPids := if l.bg then l.fgPids else l.fgPids ++ [p] }
    if c.interactive then
      some { s with sh := insertJob s.sh l.pgid p l.bg, cmds := addCmd s.cmds l.pgid cmd, mode := .launching l' }
    else some { s with mode := .launching l' }
  | _, _ => none

def stepLaunched (s : State) (l : Launch) : Option State :=
  match l.phase, l.cmds with
  | .fork, [] =>
    if l.bg then
      let o := match findGid s.sh l.pgid with
        | some j => [Out.launched j.id j.gid]
        | none => []
      some { s with out := s.out ++ o, mode := .eol }
    else if l.fgPids.isEmpty then some { s with mode := .handback l.pgid (.launch l.termGiven) }
    else some { s with mode := .waiting { gid := l.pgid, pids := l.fgPids, origin := .launch l.termGiven } }
  | _, _ => none

def stepFg (s : State) (n : Nat) (explicit : Bool) : Option State :=
  if s.sh.jobs.isEmpty then some { s with out := s.out ++ [.msg "fg: no job found"], mode := .eol } else
  if !explicit && !s.sh.jobs.any (·.id = n) then none else
  match resolveJob s.sh n with
  | none => some { s with out := s.out ++ [.msg "fg: no such job"], mode := .eol }
  | some j =>
    if !tcsetOk s.procs j.gid then some { s with mode := .eol } else
    let procs := sigGroup s.procs j.gid .cont
    let sh := markRunning s.sh j.gid false
    if j.pids.isEmpty then some { s with tfg := j.gid, procs := procs, sh := sh, mode := .handback j.gid .fgBuiltin }
    else some { s with tfg := j.gid, procs := procs, sh := sh, mode := .waiting { gid := j.gid, pids := j.pids, origin := .fgBuiltin } }

def stepBg (s : State) (n : Nat) (explicit : Bool) : Option State :=
  if s.sh.jobs.isEmpty then some { s with out := s.out ++ [.msg "bg: no job found"], mode := .eol } else
  if !explicit && !s.sh.jobs.any (·.id = n) then none else
  match resolveJob s.sh n with
  | none => some { s with out := s.out ++ [.msg "bg: not such job"], mode := .eol }
  | some j =>
    let procs := sigGroup s.procs j.gid .cont
    if j.status = "Running" then some { s with procs := procs, out := s.out ++ [.msg "bg: already in background"], mode := .eol }
    else some { s with procs := procs, sh := markRunning s.sh j.gid true, out := s.out ++ [.msg "bg: resumed"], mode := .eol }

def stepWaitGet (s : State) (w : Wait) (pid : Pid) : Option State :=
  match findProc s.procs pid with
  | none => none
  | some p =>
    match p.note with
    | none => none
    | some e =>
      let (sh', outs, waited, cont) := waitEv s.sh w e
      let procs := updProc s.procs pid consume
      let mode : Mode := if !cont && waited ≥ w.pids.length then .handback w.gid w.origin else .waiting { w with waited := waited }
      some { s with sh := sh', procs := procs, out := s.out ++ outs, mode := mode }

/-- the step function: `none` = the action is not enabled in this state -/
def step (c : Cfg) (s : State) (a : Act) : Option State :=
  match a with
  | .launch bg cmds =>
    (match s.mode with
     | .prompt => if cmds.isEmpty then none else some { s with mode := .launching { bg := bg, cmds := cmds } }
     | _ => none)
  | .fg n ex => (match s.mode with | .prompt => stepFg s n ex | _ => none)
  | .bg n ex => (match s.mode with | .prompt => stepBg s n ex | _ => none)
  | .jobs =>
    (match s.mode with
     | .prompt =>
       if s.sh.jobs.isEmpty then some { s with mode := .eol } else
       let s1 := pollR false s
       some { s1 with out := s1.out ++ listing s1.sh, mode := .eol }
     | _ => none)
  | .empty => (match s.mode with | .prompt => some { s with mode := .eol } | _ => none)
  | .fork pid => (match s.mode with | .launching l => stepFork c s l pid | _ => none)
  | .psetpgid => (match s.mode with | .launching l => stepPset s l | _ => none)
  | .give => (match s.mode with | .launching l => stepGive c s l | _ => none)
  | .insert => (match s.mode with | .launching l => stepInsert c s l | _ => none)
  | .launched => (match s.mode with | .launching l => stepLaunched s l | _ => none)
  | .csetpgid pid =>
    (match findProc s.procs pid with
     | some p =>
       if p.st = .running && !p.csetDone then
         some { s with procs := updProc s.procs pid fun q =>
           if setpgidOk s.procs pid q.first then { q with pgid := q.first, csetDone := true } else { q with csetDone := true } }
       else none
     | none => none)
  | .exit pid code =>
    (match findProc s.procs pid with
     | some p => if p.st = .running then some { s with procs := updProc s.procs pid fun q => { q with st := .zombie, note := some (.exited pid code) } } else none
     | none => none)
  | .signal pid sg =>
    (match findProc s.procs pid with
     | some p => if p.alive then some { s with procs := updProc s.procs pid fun q => sigProc q sg } else none
     | none => none)
  | .ctrlC => some { s with procs := sigGroup s.procs s.tfg .int }
  | .ctrlZ => some { s with procs := sigGroup s.procs s.tfg .tstp }
  | .waitGet pid => (match s.mode with | .waiting w => stepWaitGet s w pid | _ => none)
  | .waitEchild =>
    (match s.mode with
     | .waiting w => if s.procs.all (·.st = .reaped) then some { s with mode := .handback w.gid w.origin } else none
     | _ => none)
  | .handback =>
    (match s.mode with
     | .handback _ (.launch tg) => some { s with tfg := if tg then s.shell else s.tfg, mode := .eol }
     | .handback _ .fgBuiltin => some { s with tfg := s.shell, mode := .eol }
     | _ => none)
  | .poll => (match s.mode with | .eol => some { pollR true s with mode := .prompt } | _ => none)

/-- states reachable from the start of a session -/
inductive Reachable (c : Cfg) : State → Prop
  | init (s : Pid) : s ≠ 0 → Reachable c (init s)
  | step {s s' : State} (a : Act) : Reachable c s → step c s a = some s' → Reachable c s'

/-- run a list of actions; `none` as soon as one is not enabled -/
def run (c : Cfg) : State → List Act → Option State
  | s, [] => some s
  | s, a :: as => match step c s a with
    | some s' => run c s' as
    | none => none

/-! ### views used by the statements -/

/-- the job incarnations of the table: (id, group id), in table order -/
def keys (s : Sh) : List (Nat × Pid) := s.jobs.map fun j => (j.id, j.gid)

/-- the (id, group id) of a final announcement (`Done`, `Killed…`, …); `Stopped` announcements are not final -/
def finKey : Out → Option (Nat × Pid)
  | .report i g w => if w = "Stopped" then none else some (i, g)
  | _ => none

def finKeys (out : List Out) : List (Nat × Pid) := out.filterMap finKey

/-! ### sessions: the property's alphabet, replayed along one canonical schedule

A session action expands into a path of `step`: a child's own `setpgid` directly after its fork, a stage that
ends by itself directly after that, `wait_fg_job` consuming what is pending (children in creation order, as
`waitpid(-1)` scans them; `pref` = the order in which simultaneous changes reach a blocked `waitpid`), the
hand-back and the poll as soon as they are enabled.  Children are numbered 1, 2, 3, … in creation order. -/

inductive Kind
  | sleep                  -- runs until signalled
  | exit (code : Int)      -- ends by itself at once
  | notfound               -- `command not found`: the forked child exits with 127
  deriving Repr, DecidableEq

inductive SAct
  | launch (bg : Bool) (kinds : List Kind)
  | ctrlZ
  | ctrlC
  | fg (n : Option Nat)
  | bg (n : Option Nat)
  | kill (i : Nat)
  | stop (i : Nat)
  | cont (i : Nat)
  | jobs
  | empty
  deriving Repr, DecidableEq

def shellPid : Pid := 1000000

/-- child number `i` of a session has pid `pidBase + i` (job numbers typed after `fg` / `bg` stay below it) -/
def pidBase : Nat := 1000

/-- command text of the stage that becomes child `i` -/
def stageCmd (i : Nat) : Kind → String
  | .sleep => s!"sleeper p{i}"
  | .exit c => s!"sleeper p{i} {c}"
  | .notfound => s!"cic07-nosuch-{i}"

def pickNote (s : State) (pref : List Pid) : Option Pid :=
  match pref.find? (fun pid => (findProc s.procs pid).any (·.note.isSome)) with
  | some p => some p
  | none => (s.procs.find? (·.note.isSome)).map (·.pid)

/-- let the shell run until it blocks in `waitpid` or reads the next line -/
def settle (c : Cfg) (pref : List Pid) : Nat → State → Option State
  | 0, s => some s
  | f + 1, s =>
    match s.mode with
    | .waiting _ =>
      (match pickNote s pref with
       | some p => (step c s (.waitGet p)).bind (settle c pref f)
       | none => if s.procs.all (·.st = .reaped) then (step c s .waitEchild).bind (settle c pref f) else some s)
    | .handback _ _ => (step c s .handback).bind (settle c pref f)
    | .eol => (step c s .poll).bind (settle c pref f)
    | _ => some s

def settleFuel (s : State) : Nat := 2 * s.procs.length + 8

/-- the parent's and the child's steps for one stage -/
def stageActs (c : Cfg) (k : Nat) (pid : Pid) (kind : Kind) : List Act :=
  [.fork pid] ++ (if c.parentSetpgid then [.psetpgid] else []) ++ (if k = 0 then [.give] else []) ++ [.insert, .csetpgid pid] ++
  (match kind with
   | .sleep => []
   | .exit code => [.exit pid code]
   | .notfound => [.exit pid 127])

def launchActs (c : Cfg) (cmdOf : Nat → Kind → String) (n0 : Nat) (bg : Bool) (kinds : List Kind) : List Act :=
  let idx := List.range kinds.length
  let cmds := (idx.zip kinds).map fun (k, kd) => cmdOf (n0 + k + 1) kd
  [Act.launch bg cmds] ++ (idx.zip kinds).flatMap (fun (k, kd) => stageActs c k (pidBase + n0 + k + 1) kd) ++ [.launched]

/-- the number `fg` / `bg` without an argument resolve to when the table holds exactly one job -/
def soleJob (s : State) : Nat := (s.sh.jobs.head?.map (·.id)).getD 0

/-- a signal sent by the driver to a helper; not sent when the helper is gone -/
def extSignal (c : Cfg) (s : State) (i : Nat) (sg : Sig) : Option State :=
  match step c s (.signal (pidBase + i) sg) with
  | some s' => some s'
  | none => some s

def runMacro (c : Cfg) (cmdOf : Nat → Kind → String) (pref : List Pid) (s : State) (a : SAct) : Option State :=
  let fin := fun (s' : State) => settle c pref (settleFuel s') s'
  match a with
  | .launch bg kinds => (run c s (launchActs c cmdOf s.procs.length bg kinds)).bind fin
  | .ctrlZ => (step c s .ctrlZ).bind fin
  | .ctrlC => (step c s .ctrlC).bind fin
  | .fg (some n) => (step c s (.fg n true)).bind fin
  | .fg none => (step c s (.fg (soleJob s) false)).bind fin
  | .bg (some n) => (step c s (.bg n true)).bind fin
  | .bg none => (step c s (.bg (soleJob s) false)).bind fin
  | .kill i => (extSignal c s i .kill).bind fin
  | .stop i => (extSignal c s i .stop).bind fin
  | .cont i => (extSignal c s i .cont).bind fin
  | .jobs => (step c s .jobs).bind fin
  | .empty => (step c s .empty).bind fin

/-- what the driver observes when the session is quiet -/
structure Obs where
  atPrompt : Bool
  tfg : Pid
  /-- (pid, state, is its process group the pid of its pipeline's first stage) -/
  procs : List (Pid × PSt × Bool)
  /-- printed since the previous observation -/
  outs : List Out
  deriving Repr, DecidableEq

def observe (before after : State) : Obs :=
  { atPrompt := after.mode = .prompt, tfg := after.tfg,
    procs := after.procs.map fun p => (p.pid, p.st, p.pgid = p.first),
    outs := after.out.drop before.out.length }

end Cicada.Term
