import Cicada.Model.Expand
/-!
# Model of `src/types.rs` command planning (166-219, 309-387) and `shell::do_expansion`
-/
namespace Cicada

/-- `split_tokens_by_pipes` (types.rs:309-330) -/
def splitByPipesGo : List Tok → List Tok → List (List Tok) → List (List Tok)
  | cmd, [], cmds => if cmd = [] then [] else cmds ++ [cmd]
  | cmd, (sep, v) :: rest, cmds =>
    if sep = [] ∧ v = ['|'] then
      if cmd = [] then [] else splitByPipesGo [] rest (cmds ++ [cmd])
    else splitByPipesGo (cmd ++ [(sep, v)]) rest cmds

def splitByPipes (ts : List Tok) : List (List Tok) := splitByPipesGo [] ts []

/-- `^([a-zA-Z0-9_]+)=(.*)$` (types.rs:336): name and value -/
def reEnvAssign (t : Str) : Option (Str × Str) :=
  let name := t.takeWhile isNameChar
  match t.dropWhile isNameChar with
  | '=' :: v => if name ≠ [] ∧ noNl v then some (name, v) else none
  | _ => none

/-- `drain_env_tokens` (types.rs:332-353): leading `NAME=value` tokens; returns (pairs in order, rest) -/
def drainEnvTokens : List Tok → List (Str × Str) × List Tok
  | [] => ([], [])
  | (sep, text) :: rest =>
    if sep ≠ [] then ([], (sep, text) :: rest)
    else match reEnvAssign text with
      | none => ([], (sep, text) :: rest)
      | some (n, v) =>
        let (e, r) := drainEnvTokens rest
        ((n, unquote v) :: e, r)

structure Command where
  tokens : List Tok
  redirectsTo : List Redir
  redirectFrom : Option Tok
  deriving Repr, DecidableEq

def removeAt (l : List Tok) (i : Nat) : List Tok := l.take i ++ l.drop (i + 1)

/-- one round of the `while has_redirect_from` loop (types.rs:174-196) for marker `m` -/
def extractFrom (m : Str) (st : List Tok × Str × Str) : List Tok × Str × Str :=
  let (ts, ty, v) := st
  match ts.findIdx? (fun x => x.1 = [] ∧ x.2 = m) with
  | none => (ts, ty, v)
  | some idx =>
    let ts1 := removeAt ts idx
    if ts1.length > idx then (removeAt ts1 idx, m, (ts1.getD idx ([], [])).2)
    else (ts1, m, v)

def fromLoop : Nat → List Tok × Str × Str → List Tok × Str × Str
  | 0, st => st
  | f + 1, st =>
    if st.1.any (fun x => x.1 = [] ∧ (x.2 = ['<'] ∨ x.2 = ['<', '<', '<'])) then
      fromLoop f (extractFrom ['<', '<', '<'] (extractFrom ['<'] st))
    else st

/-- the pre-pass of `Command::from_tokens` (since `fix:` "`<file` … without a blank"): an unquoted token `<file` /
`<<<word` is split into operator and operand -/
def splitAttached : List Tok → List Tok
  | [] => []
  | (sep, text) :: rest =>
    if sep = [] ∧ text.length > 3 ∧ text.take 3 = ['<', '<', '<'] then
      ([], ['<', '<', '<']) :: ([], text.drop 3) :: splitAttached rest
    else if sep = [] ∧ text.length > 1 ∧ text.take 1 = ['<'] ∧ text.take 2 ≠ ['<', '<'] then
      ([], ['<']) :: ([], text.drop 1) :: splitAttached rest
    else (sep, text) :: splitAttached rest

/-- `Command::from_tokens` (types.rs:166-235) -/
def fromTokens (ts0 : List Tok) : Except String Command :=
  let ts := splitAttached ts0
  let (ts', ty, v) := fromLoop (ts.length + 1) (ts, [], [])
  match tokensToRedirections ts' with
  | .error e => .error e
  | .ok (tf, rs) =>
    if tf = [] then .error "syntax error: command expected"
    else .ok { tokens := tf, redirectsTo := rs, redirectFrom := if ty = [] then none else some (ty, v) }

structure Plan where
  commands : List Command
  envs : List (Str × Str)
  background : Bool
  deriving Repr, DecidableEq

def fromTokensAll : List (List Tok) → Except String (List Command)
  | [] => .ok []
  | ts :: rest => match fromTokens ts with
    | .error e => .error e
    | .ok c => match fromTokensAll rest with
      | .error e => .error e
      | .ok cs => .ok (c :: cs)

/-- `CommandLine::from_line` after expansion (types.rs:361-386) -/
def planOfTokens (ts : List Tok) : Except String Plan :=
  let (envs, ts1) := drainEnvTokens ts
  let (bg, ts2) :=
    if ts1.length > 1 ∧ ts1.getLast? = some ([], ['&']) then (true, ts1.dropLast) else (false, ts1)
  match fromTokensAll (splitByPipes ts2) with
  | .error e => .error e
  | .ok cs => .ok { commands := cs, envs := envs, background := bg }

end Cicada
