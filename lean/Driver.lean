import Cicada.Codec
import Cicada.Model.ParserLine
import Cicada.Model.Execute
import Cicada.Model.Subst
import Cicada.Model.Core
import Cicada.Model.Alias
import Cicada.Model.Script
import Cicada.Model.Locust
import Cicada.Model.ScriptRun
import Cicada.Spec.C14
import Cicada.Spec.C15
import Cicada.Spec.C06
import Cicada.Model.CalcFloat
import Cicada.Model.History
import Cicada.Model.HistPrompt
import Cicada.Model.EnvCd
import Cicada.Spec.C17
import Cicada.Spec.C03
import Cicada.Spec.C01
import Cicada.Spec.C10
import Cicada.Spec.C12
import Cicada.Spec.C19
import Cicada.Spec.C13
import Cicada.Model.FdDriver
import Cicada.Model.Prompt
import Cicada.Model.Highlight
import Cicada.Model.ScriptSessDriver
import Cicada.Spec.C20
import Cicada.Drive.C07
/-!
`cicada_model` — runs the Lean model (the very definitions the theorems are about) and the
reference semantics on the cases of the correspondence protocol.

stdin: `id \t stream \t field…`; stdout: `id \t M(x) \t S(x) \t guard \t class`.
`-` in the S/guard/class columns means "this stream has no spec of its own".
-/
open Cicada Cicada.Codec

structure Ans where
  m : String
  s : String := "-"
  guard : String := "-"
  cls : String := "-"

def parseScript (s : String) : List (Str × Int) :=
  if s = "[]" then [] else
  (s.splitOn ",").filterMap (fun p => match p.splitOn ":" with
    | [a, b] => some (unhex a, b.toInt?.getD 99)
    | _ => none)

def lookupStatus (script : List (Str × Int)) (t : Str) : Int :=
  match script.find? (fun p => p.1 = t) with
  | some p => p.2
  | none => 99

def traceOut (tr : List (Str × Int)) : String :=
  if tr.isEmpty then "[]" else ",".intercalate (tr.map (fun (a, b) => hex a ++ ":" ++ toString b))

def parseProg (s : String) : Option C03.Prog :=
  if s = "-" then none else
  match s.splitOn "," with
  | [] => none
  | f :: rest =>
    let segs := rest.filterMap (fun p => match p.splitOn ":" with
      | [o, t] =>
        (match o with
         | "s" => some (C03.ListOp.semi, unhex t)
         | "a" => some (C03.ListOp.and, unhex t)
         | "o" => some (C03.ListOp.or, unhex t)
         | _ => none)
      | _ => none)
    if segs.length = rest.length then some { first := unhex f, rest := segs } else none


def pairsIn (s : String) : List (Str × Str) :=
  if s = "[]" ∨ s = "" then [] else
  (s.splitOn ",").filterMap (fun p => match p.splitOn ":" with
    | [a, b] => some (unhex a, unhex b)
    | _ => none)

def pairsOut (l : List (Str × Str)) : String :=
  if l.isEmpty then "[]" else ",".intercalate (l.map (fun (a, b) => hex a ++ ":" ++ hex b))

structure EnvSpec where
  env : Env := { pid := 4194305 }
  cmds : List (Str × Str) := []

def envIn (s : String) : EnvSpec :=
  (s.splitOn ";").foldl (fun (e : EnvSpec) sec =>
    if sec.length < 2 then e else
    let k := (sec.take 2).toString
    let v := (sec.drop 2).toString
    match k with
    | "v=" => { e with env := { e.env with vars := pairsIn v } }
    | "x=" => { e with env := { e.env with exported := pairsIn v } }
    | "a=" => { e with env := { e.env with aliases := pairsIn v } }
    | "s=" => { e with env := { e.env with status := v.toInt?.getD 0 } }
    | "c=" => { e with cmds := pairsIn v }
    | "g=" =>
      -- glob oracle: `hexpattern:hexmatch/hexmatch/…` (`!` = pattern error, `[]` = no match); unlisted patterns match nothing
      let tbl : List (Str × Option (List Str)) := if v = "[]" ∨ v = "" then [] else
        (v.splitOn ",").filterMap (fun p => match p.splitOn ":" with
          | [a, b] => some (unhex a, if b = "!" then none else if b = "[]" then some [] else some ((b.splitOn "/").map unhex))
          | _ => none)
      { e with env := { e.env with glob := fun pat => match tbl.find? (fun q => q.1 = pat) with
          | some q => q.2
          | none => some [] } }
    | _ => e) {}

def EnvSpec.subst (e : EnvSpec) : SubstEnv :=
  { env := e.env, cmdOut := fun k => (lookup e.cmds k).getD [] }

def outcomeStr {α} (f : α → String) : Outcome α → String
  | .ok a => f a
  | .err k => if k.startsWith "unmodelled" then "UNMODELLED " ++ k else "ERR " ++ k
  | .panic _ => "PANIC"
  | .diverge _ => "HANG"

def outcomeCls {α} : Outcome α → String
  | .panic s => "panic:" ++ s
  | .diverge s => "hang:" ++ s
  | _ => "-"

def ansOf {α} (f : α → String) (o : Outcome α) : Ans := { m := outcomeStr f o, cls := outcomeCls o }

def redirsOut (r : List Redir) : String :=
  if r.isEmpty then "[]" else ",".intercalate (r.map (fun (a, b, c) => hex a ++ ":" ++ hex b ++ ":" ++ hex c))

def cmdOutS (c : Command) : String :=
  let from_ := match c.redirectFrom with
    | some (a, b) => hex a ++ ":" ++ hex b
    | none => "none"
  toksOut c.tokens ++ "/" ++ redirsOut c.redirectsTo ++ "/" ++ from_

/-- HashMap semantics: last binding of a name wins; sorted by (name, value) as the harness does -/
def canonEnvs (l : List (Str × Str)) : List (Str × Str) :=
  let dedup := l.foldl (fun acc (k, v) => (acc.filter (fun p => p.1 ≠ k)) ++ [(k, v)]) []
  let key (p : Str × Str) : String := String.ofList p.1
  (dedup.toArray.qsort (fun a b => key a < key b)).toList

def planOut : Except String Plan → String
  | .ok p =>
    let cmds := if p.commands.isEmpty then "[]" else ";".intercalate (p.commands.map cmdOutS)
    "ok|" ++ (if p.background then "1" else "0") ++ "|" ++ pairsOut (canonEnvs p.envs) ++ "|" ++ cmds
  | .error e => "err|" ++ hex e.toList

def obsOut (o : C01.Obs) : String :=
  let st := if o.stages.isEmpty then "[]" else ";".intercalate (o.stages.map (fun (argv, rs, fr) =>
    hexList argv ++ "/" ++ redirsOut rs ++ "/" ++ (match fr with
      | some (a, b) => hex a ++ ":" ++ hex b
      | none => "none")))
  "ok|" ++ (if o.background then "1" else "0") ++ "|" ++ pairsOut (canonEnvs o.envs) ++ "|" ++ st

def parseArgs (s : String) : List (C01.Style × Str) :=
  if s = "[]" then [] else
  (s.splitOn ",").filterMap (fun p => match p.splitOn ":" with
    | [k, a] => (match k with
      | "s" => some (C01.Style.sq, unhex a)
      | "d" => some (C01.Style.dq, unhex a)
      | "e" => some (C01.Style.esc, unhex a)
      | _ => none)
    | _ => none)

def parseCtx : String → C01.Ctx
  | "p" => .pipe | "s" => .semi | "n" => .and | "o" => .or | _ => .alone

def parseSegs (s : String) : List C10.Seg :=
  if s = "[]" then [] else
  (s.splitOn ",").filterMap (fun p => match p.splitOn ":" with
    | ["l", a] => some (.lit (unhex a))
    | ["v", a] => some (.var (unhex a))
    | ["b", a] => some (.braced (unhex a))
    | ["s"] => some .status
    | ["p"] => some .pid
    | _ => none)

/-! brace terms on the wire: literal characters as they are, `[` alt `|` alt `]` for groups -/
mutual
def pWord : Nat → List Char → Option (C12.Word × List Char)
  | 0, _ => none
  | _ + 1, [] => some (.nil, [])
  | f + 1, c :: cs =>
    if c = '|' ∨ c = ']' then some (.nil, c :: cs)
    else if c = '[' then
      match pAlts f cs with
      | some (a, ']' :: rest) =>
        (match pWord f rest with
         | some (w, r) => some (.cons (.grp a) w, r)
         | none => none)
      | _ => none
    else match pWord f cs with
      | some (w, r) => some (.cons (.lit c) w, r)
      | none => none
def pAlts : Nat → List Char → Option (C12.Alts × List Char)
  | 0, _ => none
  | f + 1, s =>
    match pWord f s with
    | some (w, '|' :: rest) =>
      (match pAlts f rest with
       | some (a, r) => some (.more w a, r)
       | none => none)
    | some (w, r) => some (.one w, r)
    | none => none
end

def parseTerm (s : Str) : Option C12.Word :=
  match pWord (2 * s.length + 2) s with
  | some (w, []) => some w
  | _ => none

mutual
def wordChars : C12.Word → List Char
  | .nil => []
  | .cons t w => termChars t ++ wordChars w
def termChars : C12.Term → List Char
  | .lit c => [c]
  | .grp a => altsChars a
def altsChars : C12.Alts → List Char
  | .one w => wordChars w
  | .more w r => wordChars w ++ altsChars r
end

def parseDeliveries (s : String) : List C13.Delivery :=
  if s = "[]" then [] else
  (s.splitOn ",").filterMap (fun p => match p.splitOn ":" with
    | [f, n, q] =>
      let form : Option C13.Form := match f with
        | "v" => some .var | "b" => some .braced | "p" => some .dollarParen | "q" => some .backquote | _ => none
      form.map (fun fm => { form := fm, name := unhex n, dq := q = "1" })
    | _ => none)

def c13ValueOk (v : Str) : Bool := (matchBackquote v).isNone && !shouldDoDollar v

partial def ptDump : Locust.PT → String
  | .node r t kids =>
    let tt := trim t
    if tt.isEmpty then "" else
    "(" ++ r ++ " " ++ hexOfBytes (String.ofList tt).toUTF8 ++ String.join (kids.map (fun k => let d := ptDump k; if d = "" then "" else " " ++ d)) ++ ")"

/-! ### script execution under a scripted `run_proc` -/

structure DSt where
  vars : List (Str × Str) := []
  counts : List (Str × Nat) := []
  trace : List (Str × Int × List Str) := []

def seqIn (s : String) : List (Str × List Int) :=
  if s = "[]" ∨ s = "" then [] else
  (s.splitOn ",").filterMap (fun p => match p.splitOn ":" with
    | [a, b] => some (unhex a, (b.splitOn ".").filterMap String.toInt?)
    | _ => none)

def scriptSem (base : Env) (seq : List (Str × List Int)) (watch : List Str) (args : List Str) : Sem DSt :=
  let runPipe : DSt → Str → DSt × Int := fun st t =>
    let n := ((st.counts.find? (fun p => p.1 = t)).map (·.2)).getD 0
    let status : Int := match (seq.find? (fun p => p.1 = t)).map (·.2) with
      | some (v :: vs) => (v :: vs).getD (min n vs.length) 0
      | _ => 0
    let vals := watch.map (fun w => (lookup st.vars w).getD ((lookup base.exported w).getD []))
    ({ st with counts := (t, n + 1) :: st.counts.filter (fun p => p.1 ≠ t), trace := st.trace ++ [(t, status, vals)] }, status)
  { runLine := fun st line =>
      let r := runCommandLine runPipe st line
      (r.sh, (r.trace.getLast?).map (·.2)),
    setVar := fun st n v => { st with vars := (n, v) :: st.vars.filter (fun p => p.1 ≠ n) },
    words := fun st init =>
      let se : SubstEnv := { env := { base with vars := st.vars ++ base.vars }, cmdOut := fun _ => [] }
      let ts := expandArgsInTokens args (parseLine init)
      match doExpansion se (planFuel init) ts with
      | .ok ts' => ts'.flatMap (fun (sep, text) =>
          if sep = [] then ((String.ofList text).splitOn " ").filterMap (fun w => if w.trimAscii.toString = "" then none else some w.trimAscii.toString.toList)
          else [text])
      | _ => [],
    exitOnError := fun _ => false }

def traceOut3 (tr : List (Str × Int × List Str)) : String :=
  if tr.isEmpty then "[]" else ",".intercalate (tr.map (fun (l, s, vs) => hex l ++ ":" ++ toString s ++ ":" ++ "/".intercalate (vs.map hex)))

instance : Inhabited C14.Block := ⟨.nil⟩
instance : Inhabited C14.Arms := ⟨.nil⟩

/-- AST on the wire: tokens separated by blanks: `c HEX` | `b` | `k` | `i N (t HEX { … })*N e { … }` | `f HEXVAR HEXINIT { … }` | `w HEX { … }` -/
partial def pBlockW : List String → C14.Block × List String
  | [] => (.nil, [])
  | "}" :: rest => (.nil, rest)
  | "c" :: l :: rest => let (b, r) := pBlockW rest; (.cons (.cmd (unhex l)) b, r)
  | "b" :: rest => let (b, r) := pBlockW rest; (.cons .brk b, r)
  | "k" :: rest => let (b, r) := pBlockW rest; (.cons .cont b, r)
  | "w" :: t :: "{" :: rest =>
    let (body, r1) := pBlockW rest
    let (b, r) := pBlockW r1
    (.cons (.whl (unhex t) body) b, r)
  | "f" :: v :: init :: "{" :: rest =>
    let (body, r1) := pBlockW rest
    let (b, r) := pBlockW r1
    (.cons (.for (unhex v) (unhex init) body) b, r)
  | "i" :: rest =>
    let rec arms (ts : List String) : C14.Arms × List String := match ts with
      | "t" :: c :: "{" :: more =>
        let (body, r1) := pBlockW more
        let (as, r2) := arms r1
        (.cons (unhex c) body as, r2)
      | other => (.nil, other)
    let (as, r1) := arms rest
    let (els, r2) : C14.Block × List String := match r1 with
      | "e" :: "{" :: more => pBlockW more
      | other => (.nil, other)
    let (b, r) := pBlockW r2
    (.cons (.ite as els) b, r)
  | _ :: rest => pBlockW rest

/-! ### job histories on the wire: `L:bg:gid:p.p`, `E:e|k|s|c:pid:val`, `W:gid:p.p`, `P` separated by `;` -/
def strListDot (s : String) : List Str := if s = "" ∨ s = "~" then [] else (s.splitOn ".").map unhex

def parseEnvOps (s : String) : List EnvCd.Op :=
  (s.splitOn ";").filterMap (fun o => match o.splitOn ":" with
    | ["a", n, v] => some (.assign (unhex n) (unhex v))
    | ["p", n, v] => some (.prefixed (unhex n) (unhex v))
    | ["f", n, v] => some (.prefixedFn (unhex n) (unhex v))
    | ["x", n, v] => some (.export (unhex n) (unhex v))
    | ["u", n] => some (.unset (unhex n))
    | ["r", pre, names, line] =>
      let pr : List (Str × Str) := match pre.splitOn "=" with
        | [a, b] => [(unhex a, unhex b)]
        | _ => []
      some (.read pr (strListDot names) (unhex line))
    | ["c", args] => some (.cd (strListDot args))
    | _ => none)

def parseTree (s : String) : EnvCd.Tree :=
  if s = "[]" ∨ s = "" then [] else
  (s.splitOn ",").filterMap (fun e => match e.splitOn ":" with
    | [p, "d"] => some (unhex p, .dir)
    | [p, "f"] => some (unhex p, .file)
    | [p, "l", t] => some (unhex p, .link (unhex t))
    | _ => none)

def envObs (names : List Str) (st : EnvCd.St) (status : Int) (extra : List (Str × Str)) : String :=
  let opt : Option Str → String := fun o => match o with | some x => hex x | none => "~"
  let obs := names.map (fun n => hex (EnvCd.expandsTo st n) ++ "." ++ opt (lookup st.exported n) ++ "." ++ opt (lookup st.vars n))
  s!"{status};{hex st.cwd};{hex st.prev};{",".intercalate obs};{pairsOut extra}"

/-- blank-run guard for `read`: no two adjacent separators in the trimmed line -/
def readRunFree (line : Str) : Bool :=
  let t := trim line
  let ws : Char → Bool := fun c => c = ' ' || c = '\t' || c = '\n'
  !((t.zip (t.drop 1)).any (fun (a, b) => ws a && ws b))

def natList (s : String) : List Nat := if s = "" ∨ s = "-" then [] else (s.splitOn ".").filterMap String.toNat?

def parseJobOps (s : String) : List Jobs.Op :=
  (s.splitOn ";").filterMap (fun o => match o.splitOn ":" with
    | ["L", bg, gid, pids] => some (.launch (bg = "1") gid.toNat! (natList pids))
    | ["E", k, pid, v] =>
      let p := pid.toNat!
      let x : Int := v.toInt?.getD 0
      (match k with
       | "e" => some (.ev (.exited p x))
       | "k" => some (.ev (.killed p x))
       | "s" => some (.ev (.stopped p x))
       | "c" => some (.ev (.continued p))
       | _ => none)
    | ["W", gid, pids] => some (.waitFg gid.toNat! (natList pids))
    | ["P"] => some .poll
    | _ => none)

def jobsOut (s : Jobs.Sh) : String :=
  if s.jobs.isEmpty then "[]" else
  ",".intercalate (s.jobs.map fun j =>
    let srt := (j.stoppedSet.toArray.qsort (· < ·)).toList
    s!"{j.id}:{j.gid}:{".".intercalate (j.pids.map toString)}:{".".intercalate (srt.map toString)}:{j.status}:{if j.isBg then 1 else 0}")

def viewOut (v : List (Nat × List Nat × Bool)) : String :=
  if v.isEmpty then "[]" else
  let sorted := (v.toArray.qsort (fun a b => a.1 < b.1)).toList
  ",".intercalate (sorted.map fun (g, ps, st) => s!"{g}:{".".intercalate (ps.map toString)}:{if st then "Stopped" else "Running"}")

/-! ### C20: directory trees on the wire: `hexpath:d|f` separated by `,` (paths relative, `/` inside) -/
namespace C20D
open Cicada.C20

def parseEntries (s : String) : List (Str × Bool) :=
  if s = "[]" ∨ s = "" then [] else
  (s.splitOn ",").filterMap (fun e => match e.splitOn ":" with
    | [p, k] => some (unhex p, k = "d")
    | _ => none)

/-- components of a directory text handed to `read_dir` (`.` and empty components dropped) -/
def comps (d : Str) : List Str := (splitOnChar '/' d).filter (fun c => c ≠ [] ∧ c ≠ ['.'])

/-- `read_dir` over the tree: the entries directly below the directory, `none` when it is not a directory of the tree -/
def fsOf (tree : List (Str × Bool)) (d : Str) : Option (List (Str × Bool)) :=
  let cs := comps d
  if cs.any (· = ['.', '.']) ∨ d.head? = some '/' then none else
  let key := joinWith ['/'] cs
  if cs ≠ [] ∧ !(tree.any (fun e => e.1 = key ∧ e.2)) then none else
  let pre := if cs = [] then [] else key ++ ['/']
  some (tree.filterMap (fun e =>
    if startsWith e.1 pre ∧ e.1.length > pre.length ∧ !((e.1.drop pre.length).contains '/') then some (e.1.drop pre.length, e.2) else none))

def parseCtx : String → Ctx
  | "s" => .sq | "d" => .dq | _ => .unq

def complOut (c : Completion) : String :=
  hex c.completion ++ "@" ++ (match c.display with | some d => hex d | none => "~") ++ "@" ++ (if c.dirSuffix then "/" else "d")

/-- the line that stands at the prompt once a candidate has been chosen (quote closed by the user for directories) -/
def lineFor (prog sep : Str) (c : Completion) : Str :=
  prog ++ ' ' :: c.completion ++ (if c.dirSuffix then '/' :: closingQuote sep else [])

def dirPartOf (p : Str) : Str := uptoLast '/' p
def filePartOf (p : Str) : Str := afterLast '/' p

/-- char-wise longest common prefix (`lineread::util::longest_common_prefix`, `None` read as "") -/
def lcp2 : Str → Str → Str
  | a :: as, b :: bs => if a = b then a :: lcp2 as bs else []
  | _, _ => []
def lcpAll : List Str → Str
  | [] => []
  | x :: xs => xs.foldl lcp2 x

/-- which completer the dispatch of `CicadaCompleter::complete` reaches for the line: `some forDir` = the path
completer; `none` = another completer may answer first (not modelled) -/
def tabDispatch (line : Str) : Option Bool :=
  let t := line.dropWhile (· = ' ')
  if line.contains '|' ∨ line.contains '$' ∨ !t.contains ' ' then none
  else if startsWith t "ssh".toList ∨ startsWith t "scp".toList ∨ startsWith t "make ".toList then none
  else some (startsWith t "cd ".toList)

/-- the line after TAB: the word under the cursor replaced by the single completion and its suffix, or by the
longest common prefix of several; `none` = the word start is not a character boundary (the editor's slice panics) -/
def afterTab (fs : Str → Option (List (Str × Bool))) (envVar : Str → Option Str) (line : Str) (forDir : Bool) : Outcome (Option Str) :=
  let start := escapedWordStart line
  match (List.range (line.length + 1)).find? (fun k => utf8Len (line.take k) = start) with
  | none => .ok none
  | some k =>
    (completePath fs envVar (line.drop k) forDir).map (fun cs => match cs with
      | [] => some line
      | [c] => some (line.take k ++ c.completion ++ [if c.dirSuffix then '/' else ' '])
      | _ => some (line.take k ++ lcpAll (cs.map (·.completion))))

end C20D

def answer (stream : String) (f : Array String) : Ans :=
  let g (i : Nat) : String := f.getD i "-"
  match stream with
  | "l2c" => { m := hexList (lineToCmds (unhex (g 0))) }
  | "tok" =>
    let li := parseLineInfo (unhex (g 0))
    { m := toksOut li.tokens ++ "|" ++ (if li.complete then "1" else "0") }
  | "t2l" => { m := hex (tokensToLine (toksIn (g 0))) }
  | "wrap" => { m := hex (wrapSepString (unhex (g 0)) (unhex (g 1))) }
  | "unq" => { m := hex (unquote (unhex (g 0))) }
  | "arith" => { m := if isArithmetic (unhex (g 0)) then "1" else "0" }
  | "escpath" => { m := hex (escapePath (unhex (g 0))) }
  | "ews" => { m := toString (escapedWordStart (unhex (g 0))) }
  | "tab" =>
    -- env, tree, typed line before TAB, text typed after TAB; then Enter: accepted line (as history stores it) and recorded argv
    let es := envIn (g 0)
    let tree := C20D.parseEntries (g 1)
    let line := unhex (g 2)
    let after := unhex (g 3)
    match C20D.tabDispatch line with
    | none => { m := "UNMODELLED dispatch" }
    | some forDir =>
      match C20D.afterTab (C20D.fsOf tree) (fun k => lookup es.env.exported k) line forDir with
      | .ok none => { m := "PANIC" }
      | .ok (some l1) =>
        let final := l1 ++ after
        if !(parseLineInfo final).complete then { m := "INCOMPLETE|" ++ hex final } else
        let recs : String := match lineToCmds final with
          | [item] =>
            if (parseLine item).any (fun t => t.2.contains '*' ∨ t.2.contains '`') then "UNMODELLED" else
            (match planOf es.subst (planFuel item) item with
             | .ok (.ok p) =>
               let rs := (p.commands.filter (fun c => (c.tokens.head?.map (·.2)) = some "argv".toList)).map (fun c => hexList (c.tokens.map (·.2)))
               if rs.isEmpty then "none" else ";".intercalate rs
             | .ok (.error _) => "none"
             | _ => "UNMODELLED")
          | [] => "none"
          | _ => "UNMODELLED"
        if recs = "UNMODELLED" then { m := "UNMODELLED run" } else
        let m := "L=" ++ hex (trim final) ++ "|A=" ++ recs
        -- the entry the typed prefix singles out (path, kind), the context and the prefix: what the program must receive
        if g 4 = "-" ∨ forDir then { m := m } else
        let ctx := C20D.parseCtx (g 6)
        let pre := unhex (g 7)
        let path := unhex (g 4)
        let isDir := g 5 = "d"
        let cmdw := (line.dropWhile (· = ' ')).takeWhile (· ≠ ' ')
        let cls := C20.classifyCase ctx pre [(path.drop (uptoLast '/' pre).length, isDir)]
        { m := m, s := "A=" ++ hexList [cmdw, C20.received path isDir], guard := if cls = "-" then "1" else "0", cls := cls }
      | .err k => { m := "UNMODELLED " ++ k }
      | _ => { m := "PANIC" }
  | "cmplneeds" =>
    -- which patterns will `expand_glob` hand to the glob crate while the candidates' lines are planned
    let es := envIn (g 0)
    let tree := C20D.parseEntries (g 1)
    let word := unhex (g 4)
    let prog := unhex (g 6)
    let sep : Str := match (parseLine word).getLast? with
      | some t => t.1
      | none => []
    let pats : List Str := match completePath (C20D.fsOf tree) (fun k => lookup es.env.exported k) word (g 5 = "1") with
      | .ok cs => cs.flatMap (fun c => match lineToCmds (C20D.lineFor prog sep c) with
          | [item] =>
            let t2 := expandEnv es.env (expandHome es.env (expandAlias es.env (parseLine item)))
            (match expandBrace t2 with
             | .ok t3 => (t3.filter (fun (sp, text) => sp = [] ∧ text.contains '*' ∧
                 ¬ ((trim text).head? = some '\'' ∨ (trim text).head? = some '"'))).map (·.2)
             | _ => [])
          | _ => [])
      | _ => []
    { m := hexList pats }
  | "cmpl" =>
    -- env, tree, ctx, prefix, typed word, forDir, prog
    let es := envIn (g 0)
    let tree := C20D.parseEntries (g 1)
    let ctx := C20D.parseCtx (g 2)
    let pre := unhex (g 3)
    let word := unhex (g 4)
    let forDir := g 5 = "1"
    let prog := unhex (g 6)
    let fs := C20D.fsOf tree
    let sep : Str := match (parseLine word).getLast? with
      | some t => t.1
      | none => []
    let planS (line : Str) : String := outcomeStr planOut (C20.planLine es.subst (planFuel line) line)
    let path : Str := match (parseLine word).getLast? with
      | some t => t.2
      | none => []
    let absolute := (splitPathname (expandEnvString (fun k => lookup es.env.exported k) path)).1.head? = some '/'
    let m : String := if absolute then "UNMODELLED absolute-directory" else
      match completePath fs (fun k => lookup es.env.exported k) word forDir with
      | .ok cs =>
        -- entries with one and the same inserted text come in read_dir's order: canonical order among them, as the harness does
        let keyed := cs.map (fun c => (String.ofList c.completion, C20D.complOut c ++ "@" ++ planS (C20D.lineFor prog sep c)))
        let sorted := (keyed.toArray.qsort (fun a b => a.1 < b.1 || (a.1 == b.1 && a.2 < b.2))).toList
        if cs.isEmpty then "[]" else "&".intercalate (sorted.map (·.2))
      | .err k => if k.startsWith "unmodelled" then "UNMODELLED " ++ k else "ERR " ++ k
      | .panic _ => "PANIC"
      | .diverge _ => "HANG"
    if C20.typedWord ctx pre ≠ word then { m := m, s := "RENDER-MISMATCH" } else
    if !C20.prefixExpressible ctx pre then { m := m, guard := "0", cls := "outside-statement:prefix" } else
    let dirPart := C20D.dirPartOf pre
    let entries := (fs (if dirPart = [] then ['.'] else dirPart)).getD []
    let cands := C20.candidates entries (C20D.filePartOf pre) forDir
    let s : String := if cands.isEmpty then "[]" else
      "&".intercalate (cands.map (fun e => obsOut (C20.expectedObs prog (dirPart ++ e.1) e.2)))
    let pOk := C20.okPrefix ctx pre
    let bad := cands.find? (fun e => !C20.okName ctx (C20.received (dirPart ++ e.1) e.2))
    let progOk := C01.plainWord prog && (lookup es.env.aliases prog).isNone && prog ≠ "xargs".toList
    let cls : String := if !progOk then "outside-statement:program-word" else C20.classifyCase ctx pre cands
    { m := m, s := if cls.startsWith "outside-statement" then "-" else s,
      guard := if progOk && pOk && bad.isNone then "1" else "0", cls := cls }
  | "redir" =>
    match tokensToRedirections (toksIn (g 0)) with
    | .ok (t, r) =>
      let rs := if r.isEmpty then "[]" else
        ",".intercalate (r.map (fun (a, b, c) => hex a ++ ":" ++ hex b ++ ":" ++ hex c))
      { m := "ok|" ++ toksOut t ++ "|" ++ rs }
    | .error e => { m := "err|" ++ hex e.toList }
  | "list" =>
    let line := unhex (g 0)
    let script := parseScript (g 1)
    let prev : Int := (g 2).toInt?.getD 0
    let run : Int → Str → Int × Int := fun _ t => (lookupStatus script t, lookupStatus script t)
    let st := runCommandLine run prev line
    let last : Int := st.sh
    let m := traceOut st.trace ++ "|" ++ toString last
    match parseProg (g 3) with
    | none => { m := m }
    | some p =>
      if C03.render p ≠ line then { m := m, s := "RENDER-MISMATCH" } else
      -- the spec speaks about programs whose segments are pipelines (`WellFormed` = guard)
      if !C03.guard p then { m := m, guard := "0" } else
      let r := C03.specList run prev p
      { m := m, s := traceOut r.trace ++ "|" ++ toString r.sh, guard := "1" }
  | "xalias" =>
    let e := (envIn (g 0)).env
    let a : Ans := { m := toksOut (expandAlias e (toksIn (g 1))) }
    if g 2 = "c17" then
      let stages := if g 3 = "[]" then [] else ((g 3).splitOn ";").map (fun s => if s = "-" then [] else toksIn s)
      if C17.joinStages stages ≠ toksIn (g 1) then { a with s := "RENDER-MISMATCH" } else
      let ok := C17.guard stages
      { a with s := toksOut (C17.specAlias e.aliases stages), guard := if ok then "1" else "0",
               cls := if ok then "-" else "xargs" }
    else a
  | "xhome" => { m := toksOut (expandHome (envIn (g 0)).env (toksIn (g 1))) }
  | "xenv" =>
    let e := (envIn (g 0)).env
    let a : Ans := { m := toksOut (expandEnv e (toksIn (g 1))) }
    if g 2 = "c10" then
      let w := parseSegs (g 3)
      let q : C10.Quote := match g 4 with
        | "d" => .dq
        | "s" => .sq
        | _ => .none
      if toksIn (g 1) ≠ [(q.sep, C10.render w)] then { a with s := "RENDER-MISMATCH" } else
      if !C10.wordOk w then { a with guard := "0", cls := "outside-statement:word" } else
      let gate := q = .sq || !C10.hasRef w || envInToken (C10.render w)
      { a with s := toksOut [C10.specToken e q w], guard := if gate then "1" else "0",
               cls := if gate then "-" else "gate-rejects-reference" }
    else a
  | "xbrace" =>
    let a := ansOf toksOut (expandBrace (toksIn (g 0)))
    if g 1 = "c12" then
      match parseTerm (unhex (g 2)) with
      | none => { a with s := "BAD-TERM" }
      | some w =>
        if toksIn (g 0) ≠ [([], C12.render w)] then { a with s := "RENDER-MISMATCH" } else
        let ok := C12.okW w && (wordChars w).all braceInner
        if !ok then { a with guard := "0", cls := "outside-statement:literal" } else
        { a with s := toksOut ((C12.denote w).map tagBlank), guard := "1" }
    else a
  | "xrange" =>
    let a : Ans := { m := toksOut (expandBraceRange (toksIn (g 0))) }
    if g 1 = "c12r" then
      match (g 2).toInt?, (g 3).toInt? with
      | some m, some n =>
        let s : Int := match (g 4).toInt? with
          | some k => if k ≤ 1 then 1 else k
          | none => 1
        let pre := unhex (g 5)
        let post := unhex (g 6)
        let inI32 (z : Int) : Bool := decide (-(2 ^ 31 : Int) ≤ z) && decide (z < (2 ^ 31 : Int))
        let seq := C12.rangeSpec m n s (C12.rangeCount m n s)
        let seq := seq.filter inI32
        let spec := seq.map (fun z => tagBlank (pre ++ showInt z ++ post))
        -- a bound or step that does not fit an i32 is answered with a diagnostic (the pass gives up): outside the statement
        let fits := inI32 m && inI32 n && (match (g 4).toInt? with
          | some k => inI32 k
          | none => true)
        if !fits then { a with guard := "0", cls := "outside-statement:range-bound-not-i32" } else
        { a with s := toksOut spec, guard := "1" }
      | _, _ => a
    else a
  | "xglob" =>
    let e := (envIn (g 0)).env
    let ts := toksIn (g 1)
    -- guard: the matcher accepts every pattern, and no word starts with a quote character after trimming
    let ok := ts.all (fun (sep, text) => !(sep = [] ∧ text.contains '*') ||
      ((e.glob text).isSome && !((trim text).head? = some '\'' ∨ (trim text).head? = some '"')))
    { m := toksOut (expandGlob e ts), s := toksOut (C12.globSpec e.glob ts), guard := if ok then "1" else "0",
      cls := if ok then "-" else "outside-statement:pattern-error" }
  | "xall" =>
    let ts := toksIn (g 1)
    ansOf toksOut (doExpansion (envIn (g 0)).subst (planFuel (tokensToLine ts)) ts)
  | "subst" =>
    let ts := toksIn (g 1)
    let se := (envIn (g 0)).subst
    let fuel := planFuel (tokensToLine ts)
    let r := (substDotGo se fuel 0 ts).bind (fun u1 =>
      let t5 := doExpansion.applyUpdates ts u1
      (substDollarGo se fuel 0 t5).map (fun u2 => match u2 with
        | none => t5
        | some u => doExpansion.applyUpdates t5 u))
    ansOf toksOut r
  | "envin" => { m := if envInToken (unhex (g 0)) then "1" else "0" }
  | "needbrace" => { m := if needExpandBrace (unhex (g 0)) then "1" else "0" }
  | "shoulddollar" => { m := if shouldDoDollar (unhex (g 0)) then "1" else "0" }
  | "oneenv" =>
    { m := hex (expandEnvs (envIn (g 0)).env (unhex (g 1))) }
  | "pipes" =>
    let v := splitByPipes (toksIn (g 0))
    { m := if v.isEmpty then "[]" else ";".intercalate (v.map toksOut) }
  | "drain" =>
    let (e, r) := drainEnvTokens (toksIn (g 0))
    { m := pairsOut (canonEnvs e) ++ "|" ++ toksOut r }
  | "ftok" =>
    { m := match fromTokens (toksIn (g 0)) with
        | .ok c => "ok|" ++ cmdOutS c
        | .error e => "err|" ++ hex e.toList }
  | "plan" =>
    let line := unhex (g 1)
    ansOf planOut (planOf (envIn (g 0)).subst (planFuel line) line)
  | "plan1" =>
    -- plan of the first pipeline of a line: line_to_cmds, then from_line on the first item
    let line := unhex (g 1)
    let es := envIn (g 0)
    let a : Ans := match lineToCmds line with
      | [] => { m := "empty" }
      | item :: _ => ansOf planOut (planOf es.subst (planFuel item) item)
    if g 2 = "c01" then
      let p := unhex (g 3)
      let args := parseArgs (g 4)
      let ctx := parseCtx (g 5)
      -- field 6 = "t": the operator of the context is written WITHOUT blanks around it (`prog 'a'|q`, `prog "b";q`): same
      -- expected observable; no theorem is claimed for this spelling (guard 0), the spec is still the oracle
      -- field 6 = "i" / "o" / "d" / "e": the command also carries a REAL unquoted `< inp`, `> out`, `2>&1` after the arguments or an
      -- assignment `X=1` in front of the program word (quoted arguments next to another feature of the line); same arguments expected
      if g 6 = "i" ∨ g 6 = "o" ∨ g 6 = "d" ∨ g 6 = "e" then
        let base := C01.renderCmd p args
        let rendered : Str := match g 6 with
          | "i" => base ++ " < inp".toList | "o" => base ++ " > out".toList | "d" => base ++ " 2>&1".toList | _ => "X=1 ".toList ++ base
        if rendered ≠ line ∨ ctx ≠ .alone then { a with s := "RENDER-MISMATCH" } else
        -- with text after the arguments the last argument is no longer the last word of the line: it is classified as a middle one
        let cls := if g 6 = "e" then C01.classify es.env p args .alone
                   else C01.classify es.env p (args ++ [(C01.Style.sq, ['z'])]) .alone
        let argv := C01.expectedArgv p args
        let obs : C01.Obs := match g 6 with
          | "i" => { stages := [(argv, [], some (['<'], "inp".toList))], envs := [], background := false }
          | "o" => { stages := [(argv, [(['1'], ['>'], "out".toList)], none)], envs := [], background := false }
          | "d" => { stages := [(argv, [(['2'], ['>'], "&1".toList)], none)], envs := [], background := false }
          | _ => { stages := [(argv, [], none)], envs := [("X".toList, "1".toList)], background := false }
        { a with s := if cls.startsWith "outside-statement" then "-" else obsOut obs, guard := "0",
                 cls := if cls = "esc-other" then "-" else cls } else
      let tight := g 6 = "t"
      let tightSuffix : Str := match ctx with
        | .alone => [] | .pipe => "|q".toList | .semi => ";q".toList | .and => "&&q".toList | .or => "||q".toList
      let rendered := if tight then C01.renderCmd p args ++ tightSuffix else C01.renderLine p args ctx
      if rendered ≠ line then { a with s := "RENDER-MISMATCH" } else
      let cls := C01.classify es.env p args ctx
      if tight then
        -- the tokenizer's `\\` tag of a word that starts with an escaped `|` stays on while the following words start with an
        -- escaped character; a `|` written directly after such a word is appended to it (parser_line.rs: the pipe test needs sep == "")
        let sticky := args.foldl (fun (st : Bool) (x : C01.Style × Str) => match x with
          | (.esc, c :: _) => if c = '|' then true else if C01.isSpecial c then st else false
          | _ => false) false
        let cls' := if cls = "esc-other" || cls = "-" then (if sticky && ctx = .pipe then "esc-pipe-first-tight" else "-") else cls
        { a with s := if cls.startsWith "outside-statement" then "-" else obsOut (C01.expectedObs p args ctx), guard := "0",
                 cls := cls' } else
      { a with s := if cls.startsWith "outside-statement" then "-" else obsOut (C01.expectedObs p args ctx),
               -- = `guardEsc` (Thm/C01esc.lean) by theorem `guardEsc_iff`: the complement of the finding classes
               guard := if (cls = "-" || cls = "esc-other") && (ctx ≠ .pipe || (lookup es.env.aliases ['q']).isNone) then "1" else "0",
               cls := cls }
    else if g 2 = "c13" then
      let p := unhex (g 3)
      let ds := parseDeliveries (g 4)
      let se := es.subst
      if C13.renderCmd p ds ≠ line then { a with s := "RENDER-MISMATCH" } else
      let allDq := ds.all (·.dq)
      let isVar (d : C13.Delivery) : Bool := d.form = .var || d.form = .braced
      let varsOk := ds.all (fun d => !isVar d || c13ValueOk (d.value se))
      let spec : String :=
        if allDq then obsOut { stages := [(p :: ds.map (·.value se), [], none)], envs := [], background := false }
        else "shape|1|[]|[]|0|[]"
      let guard := allDq && ds.all isVar && varsOk
      let cls : String :=
        if guard then "-"
        else if !varsOk then "value-substitution"
        else if !allDq then "unquoted-delivery"
        else "dq-command-substitution"
      { a with s := spec, guard := if guard then "1" else "0", cls := cls }
    else if g 2 = "c13g" then
      -- prog PATTERN: the delivery is filename expansion; whatever the matching names are, the plan must be one plain stage
      -- whose arguments are exactly the visible matches (or the pattern itself)
      let p := unhex (g 3)
      let pat := unhex (g 4)
      if p ++ ' ' :: pat ≠ line then { a with s := "RENDER-MISMATCH" } else
      let words := C12.globWords ((es.env.glob pat).getD []) pat
      let safeName (w : Str) : Bool :=
        !(w.any (fun c => c = '>' || c = '<' || c = '|' || c = '`' || c = '{')) && !hasInfix ['$', '('] w && w ≠ ['&']
      let guard := words.all safeName && (es.env.glob pat).isSome
      { a with s := obsOut { stages := [(p :: words, [], none)], envs := [], background := false },
               guard := if guard then "1" else "0", cls := if guard then "-" else "filename-reread" }
    else if g 2 = "c11" then
      -- prog ARG, ARG = [dq] pre ++ ($(cmd) | `cmd`) ++ post [dq]
      let p := unhex (g 3)
      let pre := unhex (g 4)
      let cmd := unhex (g 6)
      let post := unhex (g 7)
      let dq := g 8 = "1"
      let core : Str := if g 5 = "p" then pre ++ '$' :: '(' :: (cmd ++ ')' :: post) else pre ++ '`' :: (cmd ++ '`' :: post)
      let arg : Str := if dq then ['"'] ++ core ++ ['"'] else core
      if p ++ ' ' :: arg ≠ line then { a with s := "RENDER-MISMATCH" } else
      let out := unhex (g 9)
      let stripNl (s : Str) : Str := (s.reverse.dropWhile (· = '\n')).reverse
      let expected := pre ++ stripNl out ++ post
      let trimOk := trim out = stripNl out
      let rescan := reDollarParen out || (out.filter (· = '`')).length ≥ 2
      let plainOut := out.all (fun c => isAlphaA c || isDigitA c || c = '\n' || c = '-' || c = '.' || c = '/' || c = '_')
      let innerPre := cmd.any (fun c => c = '$' || c = '{' || c = '*' || c = '~' || c = '\\')
      -- a `$` in the surrounding text must be plainly literal (followed by a character that cannot start a reference)
      let rec litDollar : Str → Bool
        | [] => true
        | '$' :: [] => false
        | '$' :: c :: r => !(isKeyChar c || c = '$' || c = '?' || c = '{' || c = '(') && litDollar (c :: r)
        | _ :: r => litDollar r
      let textOk := litDollar pre && litDollar post && (dq || (!pre.contains ' ' && !post.contains ' '))
      let bqSuffix := !dq && g 5 = "q" && pre = [] && post ≠ []
      let guard := trimOk && !rescan && (dq || plainOut) && expected ≠ [] && !innerPre && !bqSuffix && textOk &&
        !pre.contains '$' && !post.contains '$'
      let cls : String :=
        if !textOk then "outside-statement:surrounding-text"
        else if guard then "-"
        else if expected = [] then "outside-statement:empty-word"
        else if bqSuffix then "backquote-suffix"
        else if innerPre then "inner-preexpanded"
        else if rescan then "output-rescanned"
        else if !trimOk then "trim-both-ends"
        else "unquoted-output"
      { a with s := if cls.startsWith "outside-statement" then "-" else
                 obsOut { stages := [([p, expected], [], none)], envs := [], background := false },
               guard := if guard then "1" else "0", cls := cls }
    else a
  | "bseq" =>
    -- a sequence of builtin lines on one shell: alias / unalias / `use <tokens…>` (expand_alias on parse_line)
    let es := envIn (g 0)
    let lines := if g 1 = "[]" then [] else ((g 1).splitOn ",").map unhex
    let sortLines (s : Str) : Str :=
      let ls := (splitOnChar '\n' s).map String.ofList
      (String.intercalate "\n" (ls.toArray.qsort (· < ·)).toList).toList
    let step (st : List (Str × Str) × List String) (line : Str) : List (Str × Str) × List String :=
      let (A, outs) := st
      let env : Env := { es.env with aliases := A }
      if startsWith line "use ".toList then
        (A, outs ++ ["use|" ++ toksOut (expandAlias env (parseLine (line.drop 4)))])
      else
        match planOf { env := env, cmdOut := es.subst.cmdOut } (planFuel line) line with
        | .ok (.ok p) =>
          (match p.commands with
           | c :: _ =>
             let name := (c.tokens.head?.map (·.2)).getD []
             let sortedA := (A.toArray.qsort (fun a b => String.ofList a.1 < String.ofList b.1)).toList
             let r : Option (List (Str × Str) × BuiltinOut) :=
               if name = "alias".toList then some (aliasBuiltin A c.tokens sortedA)
               else if name = "unalias".toList then some (unaliasBuiltin A c.tokens)
               -- `unset NAME` (a valid name): variables and functions only -- the alias table is untouched
               else if name = "unset".toList ∧ c.tokens.length = 2 then some (A, {})
               else none
             (match r with
              | some (A', o) => (A', outs ++ [toString o.status ++ "|" ++ hex (sortLines o.out) ++ "|" ++ hex o.err])
              | none => (A, outs ++ ["not-builtin"]))
           | [] => (A, outs ++ ["empty"]))
        | .ok (.error e) => (A, outs ++ ["err|" ++ hex e.toList])
        | _ => (A, outs ++ ["HANG-OR-PANIC"])
    let (A, outs) := lines.foldl step (es.env.aliases, [])
    let sortedA := (A.toArray.qsort (fun a b => String.ofList a.1 < String.ofList b.1)).toList
    { m := ";".intercalate outs ++ "#" ++ pairsOut sortedA }
  | "aliasrt" =>
    -- print every alias with `alias`, feed the printed lines to a fresh shell, dump its table
    let es := envIn (g 0)
    let A0 := es.env.aliases
    let sortedA := (A0.toArray.qsort (fun a b => String.ofList a.1 < String.ofList b.1)).toList
    let lines := sortedA.map (fun p => aliasLine p.1 p.2)
    let A1 := lines.foldl (fun (A : List (Str × Str)) line =>
      match planOf { env := { es.env with aliases := A }, cmdOut := es.subst.cmdOut } (planFuel line) line with
      | .ok (.ok p) =>
        (match p.commands with
         | c :: _ => (aliasBuiltin A c.tokens []).1
         | [] => A)
      | _ => A) []
    let sorted1 := (A1.toArray.qsort (fun a b => String.ofList a.1 < String.ofList b.1)).toList
    -- guard = `entryOk` of Thm/C17list.lean (theorem `C17_list_all`), re-stated here; the classes are the refuted ones
    let ident (n : Str) : Bool := n.all isNameChar
    let has (v : Str) (c : Char) : Bool := v.contains c
    let clsOf (p : Str × Str) : String :=
      let (n, v) := p
      if v.isEmpty then "outside-statement:empty-value"
      else if has v '\'' then "list-squote"
      else if has v '\n' then "outside-statement:newline"
      else if ident n then
        (if has v '>' then "value-gt" else if has v '`' then "list-backquote" else if has v '{' then "list-brace"
         else if has v '$' then "list-dollar" else if has v '*' then "list-glob" else "-")
      else if v.head? = some '"' then "list-dquote-dashed" else "-"
    let classes := A0.map clsOf
    let emp := A0.any (fun p => p.2.isEmpty)
    let okv := classes.all (· = "-")
    { m := pairsOut sorted1, s := if emp then "-" else pairsOut sortedA, guard := if okv then "1" else "0",
      cls := (classes.find? (· ≠ "-")).getD "-" }
  | "xpargs" =>
    let args := if g 1 = "[]" then [] else ((g 1).splitOn ",").map unhex
    { m := hex (expandArgs args (unhex (g 0))) }
  | "xpargtok" =>
    let args := if g 1 = "[]" then [] else ((g 1).splitOn ",").map unhex
    let t := unhex (g 0)
    let a : Ans := { m := hex (expandArgsTok args t) }
    if g 2 = "c15" then
      let w : List C15.Seg := if g 3 = "[]" then [] else ((g 3).splitOn ",").filterMap (fun p => match p.splitOn ":" with
        | ["l", x] => some (.lit (unhex x))
        | ["p", x] => some (.pos (unhex x))
        | ["b", x] => some (.bpos (unhex x))
        | ["a"] => some .all
        | _ => none)
      if C15.render w ≠ t then { a with s := "RENDER-MISMATCH" } else
      let ok := C15.wordOk w
      { a with s := if ok then hex (C15.specArgs args w) else "-", guard := if ok then "1" else "0",
               cls := if ok then "-" else "outside-statement:word" }
    else a
  | "argsin" => { m := if isArgsInToken (unhex (g 0)) then "1" else "0" }
  | "entry" =>
    -- does the script path (expand_args) change what the line means?  same list items and same plans
    let es := envIn (g 0)
    let line := unhex (g 1)
    let args := if g 2 = "[]" then [] else ((g 2).splitOn ",").map unhex
    let plans (l : Str) : List String := (lineToCmds l).map (fun item =>
      if isListSep item then String.ofList item else outcomeStr planOut (planOf es.subst (planFuel item) item))
    -- the script path expands each list item's text as a whole line (run_exp -> expand_args -> run_command_line)
    let viaScript := plans (expandArgs args line)
    let direct := plans line
    let same := viaScript == direct
    let hasEsc := line.contains '\\'
    { m := if same then "same" else "differs", s := "same", guard := if hasEsc then "0" else "1",
      cls := if hasEsc then "unquoted-escape" else "-" }
  | "hl" => { m := Highlight.render (Highlight.highlight (unhex (g 0))) }
  | "prompt" =>
    -- the interactive entry: the line typed after `prev` was run, against the same line under -c
    let es := envIn (g 0)
    let line := unhex (g 1)
    let prev := unhex (g 2)
    let plans (l : Str) : List String := (lineToCmds l).map (fun item =>
      if isListSep item then String.ofList item else outcomeStr planOut (planOf es.subst (planFuel item) item))
    let same := plans (extendBangbang prev line) == plans line
    { m := if same then "same" else "differs", s := "same", guard := "1" }
  | "ptree" => { m := match Locust.parseLines (unhex (g 0)) with
      | some t => ptDump t
      | none => "SYNTAX-ERROR" }
  | "srun" =>
    let es := envIn (g 0)
    let text := unhex (g 1)
    let args := if g 2 = "[]" then [] else ((g 2).splitOn ",").map unhex
    let seq := seqIn (g 3)
    let watch := if g 4 = "[]" then [] else ((g 4).splitOn ",").map unhex
    let sem := scriptSem es.env seq watch (args.drop 1)
    let fuel := 4000
    let m : String := match runLines sem (args.drop 1) fuel text {} with
      | .ok (some r) => traceOut3 r.st.trace
      | .ok none => "SYNTAX-ERROR"
      | .diverge _ => "HANG"
      | _ => "ERR"
    if g 5 = "-" ∨ g 5 = "" then { m := m } else
    let (ast, _) := pBlockW (((g 5).splitOn " ").filter (· ≠ ""))
    let s : String := match C14.semBlock sem fuel ast false {} with
      | .ok (st, _) => traceOut3 st.trace
      | .diverge _ => "HANG"
      | _ => "ERR"
    { m := m, s := s, guard := "1" }
  | "fcap" =>
    -- C11: a function whose body is the generated block `text`, called inside a double-quoted substitution: `argv "$(f)"`.
    -- Every `stage N st p` of the body prints its id; the captured text must be the ids of exactly the commands the structured
    -- semantics runs, in order, one per line (both ends trimmed as the model of the splice does).
    let es := envIn (g 0)
    let text := unhex (g 1)
    let args := if g 2 = "[]" then [] else ((g 2).splitOn ",").map unhex
    let seq := seqIn (g 3)
    let sem := scriptSem es.env seq [] (args.drop 1)
    let fuel := 4000
    let idsOf (tr : List (Str × Int × List Str)) : List Str :=
      tr.filterMap (fun (l, _, _) => match splitOnChar ' ' l with
        | w :: i :: _ => if w = "stage".toList then some i else none
        | _ => none)
    -- reference: the function's standard output (one id per line, final newline removed)
    let capOf (tr : List (Str × Int × List Str)) : String := hex (joinWith ['\n'] (idsOf tr))
    -- model of `core::try_run_func` under capture: the stdout of every command it ran, each trimmed, joined by single blanks
    -- (a silent pipeline of a list line -- marked `cond N L` -- contributes its empty output too: that is where double blanks come from)
    let capModel (tr : List (Str × Int × List Str)) : String :=
      let outs : List Str := tr.filterMap (fun (l, _, _) => match splitOnChar ' ' l with
        | w :: i :: rest => if w = "stage".toList then some i else if w = "cond".toList ∧ rest = [['L']] then some [] else none
        | _ => none)
      hex (trim (joinWith [' '] outs))
    let m : String := match runLines sem (args.drop 1) fuel text {} with
      | .ok (some r) => traceOut3 r.st.trace ++ "#" ++ capModel r.st.trace
      | .ok none => "SYNTAX-ERROR"
      | .diverge _ => "HANG"
      | _ => "ERR"
    let (ast, _) := pBlockW (((g 5).splitOn " ").filter (· ≠ ""))
    let (sp, many) : String × Bool := match C14.semBlock sem fuel ast false {} with
      | .ok (st, _) => (traceOut3 st.trace ++ "#" ++ capOf st.trace, (idsOf st.trace).length ≥ 2)
      | .diverge _ => ("HANG", false)
      | _ => ("ERR", false)
    { m := m, s := sp, guard := if many then "0" else "1", cls := if many then "function-output-joined" else "-" }
  | "envseq" =>
    let init : EnvCd.St := { exported := pairsIn (g 0), cwd := unhex (g 3) }
    let names := if g 1 = "[]" then [] else (g 1).splitOn "," |>.map unhex
    let ops := parseEnvOps (g 4)
    let fs := EnvCd.treeFs (parseTree (g 5))
    let run := fun (stepf : EnvCd.St → EnvCd.Op → EnvCd.St × Int × List (Str × Str)) =>
      (ops.foldl (fun (acc : EnvCd.St × List String) op =>
        let (s', st, ex) := stepf acc.1 op
        (s', acc.2 ++ [envObs names s' st ex])) (init, [])).2
    let ok := ops.all (fun o => match o with | .read _ _ l => readRunFree l | _ => true)
    { m := "|".intercalate (run (EnvCd.step fs)), s := "|".intercalate (run (EnvCd.specStep fs)),
      guard := "1", cls := if ok then "-" else "read-blank-runs" }
  | "envproc" =>
    -- the same histories observed from outside: `$?`, the directory a relative redirection lands in, the
    -- child's own cwd, `"$NAME"` expansions, and the child's environment
    let init : EnvCd.St := { exported := pairsIn (g 0), cwd := unhex (g 3) }
    let names := if g 1 = "[]" then [] else (g 1).splitOn "," |>.map unhex
    let ops := parseEnvOps (g 4)
    let fs := EnvCd.treeFs (parseTree (g 5))
    let opt : Option Str → String := fun o => match o with | some x => hex x | none => "~"
    let run := fun (stepf : EnvCd.St → EnvCd.Op → EnvCd.St × Int × List (Str × Str)) =>
      (ops.foldl (fun (acc : EnvCd.St × List String) op =>
        let (s', st, ex) := stepf acc.1 op
        let line := s!"{st};{hex s'.cwd};{hex s'.cwd};{",".intercalate (names.map fun n => hex (EnvCd.expandsTo s' n))};{",".intercalate (names.map fun n => opt (EnvCd.childSees s' ex n))}"
        (s', acc.2 ++ [line])) (init, [])).2
    let ok := ops.all (fun o => match o with | .read _ _ l => readRunFree l | _ => true)
    { m := "|".intercalate (run (EnvCd.step fs)), s := "|".intercalate (run (EnvCd.specStep fs)),
      guard := "1", cls := if ok then "-" else "read-blank-runs" }
  | "substate" =>
    -- C11: a history in which the operations listed in field 6 are written INSIDE a command substitution
    -- (`true $(cd d1)`), and optionally a `true $(exit N)` after operation number (field 7).  Model: a captured builtin runs
    -- in the shell process itself, so its effect stays (and `exit` ends the shell); reference: the shell's state is unaffected.
    let init : EnvCd.St := { exported := pairsIn (g 0), cwd := unhex (g 3) }
    let names := if g 1 = "[]" then [] else (g 1).splitOn "," |>.map unhex
    let ops := parseEnvOps (g 4)
    let fs := EnvCd.treeFs (parseTree (g 5))
    let wrapped := natList (g 6)
    let exitAfter : Option Nat := (g 7).toNat?
    let opt : Option Str → String := fun o => match o with | some x => hex x | none => "~"
    let dead := "?;3f;?;;?"
    let run := fun (inProcess : Bool) =>
      ((ops.zipIdx).foldl (fun (acc : EnvCd.St × List String × Bool) (op, i) =>
        let (st0, outs, gone) := acc
        if gone then (st0, outs ++ [dead], true) else
        let (s', st, ex) :=
          if wrapped.contains i then
            (if inProcess then ((EnvCd.step fs st0 op).1, (0 : Int), []) else (st0, 0, []))
          else EnvCd.specStep fs st0 op
        let line := s!"{st};{hex s'.cwd};{hex s'.cwd};{",".intercalate (names.map fun n => hex (EnvCd.expandsTo s' n))};{",".intercalate (names.map fun n => opt (EnvCd.childSees s' ex n))}"
        (s', outs ++ [line], inProcess && exitAfter == some i)) (init, [], false)).2.1
    let touched := !wrapped.isEmpty || exitAfter.isSome
    { m := "|".intercalate (run true), s := "|".intercalate (run false),
      guard := if touched then "0" else "1", cls := if touched then "inner-builtin-state" else "-" }
  | "alive" => { m := "returns" }   -- C05, process level: the only prediction is that the shell returns (no model of the line editor)
  | "jobs" =>
    let ops := parseJobOps (g 0)
    let (s, outs) := ops.foldl (fun (acc : Jobs.Sh × List String) op =>
      let (s', r) := Jobs.step acc.1 op
      (s', acc.2 ++ [(match r with | some st => "W=" ++ toString st ++ "/" ++ toString s'.pending.length ++ " " | none => "") ++ jobsOut s'])) ({}, [])
    let w := ops.foldl C06.worldStep []
    let m := "|".intercalate outs
    { m := m ++ "#" ++ viewOut (C06.modelView s), s := (m ++ "#" ++ viewOut (C06.specView w)), guard := g 1, cls := g 2 }
  | "term" =>
    -- C07: a session through the small-step model (all delivery orders of terminal signals) and the reference world
    let acts := DriveC07.parseActs (g 0)
    let probes := DriveC07.probeFlags (g 0)
    let r := DriveC07.replayModel {} acts probes
    (match r.bad with
     | some why => { m := "UNMODELLED " ++ why }
     | none =>
       let cls := C07.classOf (C07.flagsOf acts)
       { m := "|".intercalate r.obs, s := "|".intercalate (DriveC07.replaySpec acts probes), guard := if cls = "-" then "1" else "0", cls := cls })
  | "termgen" =>
    let seed := (g 0).toNat?.getD 1
    let n := (g 1).toNat?.getD 10
    { m := ";".intercalate ((DriveC07.genSession (UInt64.ofNat seed) n).map DriveC07.actOut) }
  | "hist" =>
    -- ops: `A:hexdir:hexline`, `L:hexpattern`, `D:id.id` separated by `;`
    let ops := (g 0).splitOn ";"
    let (db, outs) := ops.foldl (fun (acc : Hist.Db × List String) o =>
      match o.splitOn ":" with
      | ["A", d, l] => (Hist.add acc.1 (unhex l) (unhex d), acc.2 ++ ["ok"])
      | ["L", pat] => (acc.1, acc.2 ++ [hexList (Hist.list acc.1 (unhex pat))])
      | ["D", ids] => (Hist.delete acc.1 (natList ids), acc.2 ++ ["ok"])
      | _ => acc) ({}, [])
    let rows := if db.rows.isEmpty then "[]" else ",".intercalate (db.rows.map fun r => s!"{r.rowid}:{hex r.inp}:{hex r.dir}")
    let m := "|".intercalate outs ++ "#" ++ rows
    -- spec: the same table with the text stored verbatim (no trimming)
    let (dbS, outsS) := ops.foldl (fun (acc : Hist.Db × List String) o =>
      match o.splitOn ":" with
      | ["A", d, l] => ({ rows := acc.1.rows ++ [{ rowid := acc.1.next, inp := unhex l, dir := unhex d }] }, acc.2 ++ ["ok"])
      | ["L", pat] => (acc.1, acc.2 ++ [hexList (Hist.list acc.1 (unhex pat))])
      | ["D", ids] => (Hist.delete acc.1 (natList ids), acc.2 ++ ["ok"])
      | _ => acc) ({}, [])
    let rowsS := if dbS.rows.isEmpty then "[]" else ",".intercalate (dbS.rows.map fun r => s!"{r.rowid}:{hex r.inp}:{hex r.dir}")
    let trimmed := ops.any (fun o => match o.splitOn ":" with
      | ["A", _, l] => trim (unhex l) ≠ unhex l
      | _ => false)
    { m := m, s := "|".intercalate outsS ++ "#" ++ rowsS, guard := if trimmed then "0" else "1", cls := if trimmed then "trim" else "-" }
  | "hprompt" =>
    -- lines typed at one interactive prompt (hex, separated by `,`): the rows stored
    let lines := if g 0 = "[]" ∨ g 0 = "" then [] else ((g 0).splitOn ",").map unhex
    let rows := (Hist.promptSession [] lines).db.rows.map (·.inp)
    let noBang := lines.all (fun l => !hasInfix ['!', '!'] l)
    let noTrim := lines.all (fun l => l.head? == some ' ' || trim l == l)
    { m := hexList rows, s := hexList (Hist.specRecorded lines), guard := if noBang && noTrim then "1" else "0",
      cls := if !noBang then "outside-statement:bangbang" else if !noTrim then "trim" else "-" }
  | "globneeds" =>
    -- which patterns will `expand_glob` hand to the glob crate for this case (f2: line | line1 | tokens)
    let es := envIn (g 0)
    let ts : List Tok := match g 2 with
      | "tokens" => toksIn (g 1)
      | "line1" => (match lineToCmds (unhex (g 1)) with
          | [] => []
          | item :: _ => parseLine item)
      | _ => parseLine (unhex (g 1))
    let t2 := expandEnv es.env (expandHome es.env (expandAlias es.env ts))
    let pats := match expandBrace t2 with
      | .ok t3 => (t3.filter (fun (sep, text) => sep = [] ∧ text.contains '*' ∧
          ¬ ((trim text).head? = some '\'' ∨ (trim text).head? = some '"'))).map (·.2)
      | _ => []
    { m := hexList pats }
  | "head" =>
    let line := unhex (g 1)
    let es := envIn (g 0)
    let o : Outcome String := (planOf es.subst (planFuel line) line).bind (fun pl => match pl with
      | .error e => .ok ("err|" ++ hex e.toList)
      | .ok p => (runPipelineHead es.env line p true).map (fun h => match h with
        | .bgCapture => "st=1|out=-|err=-|log=[]"
        | .calcOk z => "st=0|out=" ++ hex (showInt z) ++ "|err=-|log=[]"
        | .calcFloat => "st=0|out=F|err=-|log=[]"
        | .calcErr => "st=1|out=-|err=" ++ hex "syntax error".toList ++ "|log=[]"
        | .func _ => "UNMODELLED func"
        | .invalid => "st=1|out=-|err=-|log=[]"
        | .run k => "st=0|out=" ++ hex (es.subst.cmdOut k) ++ "|err=-|log=" ++ hex k))
    ansOf id o
  | "calc" =>
    let a := ansOf (fun r => match r with
      | Calc.CalcRes.int z => "ok|" ++ hex (showInt z)
      | .float => "ok|F"
      | .syntaxError => "err") (Calc.runCalculator (unhex (g 0)))
    if g 1 = "c19" then
      let toks := ((g 2).splitOn " ").filter (· ≠ "")
      match C19.parseT (toks.length + 1) toks with
      | some (t, []) =>
        (match C19.specEval t with
         | some v => { a with s := "ok|" ++ hex (showInt v), guard := "1" }
         | none => { a with guard := "0", cls := "outside-statement:exponent-or-literal" })
      | _ => { a with s := "BAD-TREE" }
    else a
  | "calcf" =>
    -- the printed result itself, float mode included on the exactly representable class (Model/CalcFloat.lean)
    let line := unhex (g 0)
    (match Calc.calculate line with
     | none => { m := "err" }
     | some f =>
       if line.contains '.' then
         (match Calc.floatText f with
          | some t => { m := "ok|" ++ hex t, s := "ok|" ++ hex t, guard := "1" }   -- exact arithmetic IS the reference value here
          | none => { m := "UNMODELLED:float-outside-exact-class" })
       else { m := outcomeStr (fun z => "ok|" ++ hex (showInt z)) (Calc.evalFlat f) })
  | "fdsess" =>
    let r := FdDriver.run (g 7 = "script") ((g 0).toNat?.getD 0) (FdDriver.parseItems (g 1)) (FdDriver.strSet (g 2)) (FdDriver.strSet (g 3))
      (FdDriver.strSet (g 4)) (FdDriver.strSet (g 5)) (FdDriver.parseFiles (g 6))
    { m := r.m, s := r.s, guard := if r.cls = "-" then "1" else "0", cls := r.cls }
  | "ssess" =>
    let r := ScriptSess.run (g 0) (g 1)
    { m := r.m, s := r.s, guard := if r.cls = "-" then "1" else "0", cls := r.cls }
  | "fdorder" =>
    let r := FdDriver.orderRun ((g 0).splitOn ",") (((g 1).splitOn ",").filterMap String.toNat?)
    { m := r.1, s := r.2, guard := "1" }
  | _ => { m := "UNKNOWN-STREAM" }

partial def loop (h : IO.FS.Stream) (out : IO.FS.Stream) : IO Unit := do
  let line ← h.getLine
  if line.isEmpty then return ()
  let l := (line.dropEndWhile (· = '\n')).toString
  if l.isEmpty then loop h out else
  let parts := (l.splitOn "\t").toArray
  let id := parts.getD 0 "?"
  let stream := parts.getD 1 "?"
  let a := answer stream (parts.extract 2 parts.size)
  out.putStrLn (id ++ "\t" ++ a.m ++ "\t" ++ a.s ++ "\t" ++ a.guard ++ "\t" ++ a.cls)
  loop h out

def main : IO Unit := do
  let out ← IO.getStdout
  loop (← IO.getStdin) out
  out.flush
