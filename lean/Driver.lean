import Cicada.Codec
import Cicada.Model.ParserLine
import Cicada.Model.Execute
import Cicada.Spec.C03
/-!
`cicada_model` — runs the Lean model (the very definitions the theorems are about) and the
reference semantics on the cases of the correspondence protocol.

stdin: `id \t stream \t field…`; stdout: `id \t M(x) \t S(x) \t guard \t class`.
`-` in the S/guard/class columns means "this stream has no spec of its own".
-/
open Cicada Cicada.Codec

structure Ans where
  m : String
  s : String := "-"
  guard : String := "-"
  cls : String := "-"

def parseScript (s : String) : List (Str × Int) :=
  if s = "[]" then [] else
  (s.splitOn ",").filterMap (fun p => match p.splitOn ":" with
    | [a, b] => some (unhex a, b.toInt?.getD 99)
    | _ => none)

def lookupStatus (script : List (Str × Int)) (t : Str) : Int :=
  match script.find? (fun p => p.1 = t) with
  | some p => p.2
  | none => 99

def traceOut (tr : List (Str × Int)) : String :=
  if tr.isEmpty then "[]" else ",".intercalate (tr.map (fun (a, b) => hex a ++ ":" ++ toString b))

def parseProg (s : String) : Option C03.Prog :=
  if s = "-" then none else
  match s.splitOn "," with
  | [] => none
  | f :: rest =>
    let segs := rest.filterMap (fun p => match p.splitOn ":" with
      | [o, t] =>
        (match o with
         | "s" => some (C03.ListOp.semi, unhex t)
         | "a" => some (C03.ListOp.and, unhex t)
         | "o" => some (C03.ListOp.or, unhex t)
         | _ => none)
      | _ => none)
    if segs.length = rest.length then some { first := unhex f, rest := segs } else none

def answer (stream : String) (f : Array String) : Ans :=
  let g (i : Nat) : String := f.getD i "-"
  match stream with
  | "l2c" => { m := hexList (lineToCmds (unhex (g 0))) }
  | "tok" =>
    let li := parseLineInfo (unhex (g 0))
    { m := toksOut li.tokens ++ "|" ++ (if li.complete then "1" else "0") }
  | "t2l" => { m := hex (tokensToLine (toksIn (g 0))) }
  | "wrap" => { m := hex (wrapSepString (unhex (g 0)) (unhex (g 1))) }
  | "unq" => { m := hex (unquote (unhex (g 0))) }
  | "arith" => { m := if isArithmetic (unhex (g 0)) then "1" else "0" }
  | "redir" =>
    match tokensToRedirections (toksIn (g 0)) with
    | .ok (t, r) =>
      let rs := if r.isEmpty then "[]" else
        ",".intercalate (r.map (fun (a, b, c) => hex a ++ ":" ++ hex b ++ ":" ++ hex c))
      { m := "ok|" ++ toksOut t ++ "|" ++ rs }
    | .error e => { m := "err|" ++ hex e.toList }
  | "list" =>
    let line := unhex (g 0)
    let script := parseScript (g 1)
    let prev : Int := (g 2).toInt?.getD 0
    let run : Int → Str → Int × Int := fun _ t => (lookupStatus script t, lookupStatus script t)
    let st := runCommandLine run prev line
    let last : Int := st.sh
    let m := traceOut st.trace ++ "|" ++ toString last
    match parseProg (g 3) with
    | none => { m := m }
    | some p =>
      if C03.render p ≠ line then { m := m, s := "RENDER-MISMATCH" } else
      -- the spec speaks about programs whose segments are pipelines (`WellFormed` = guard)
      if !C03.guard p then { m := m, guard := "0" } else
      let r := C03.specList run prev p
      { m := m, s := traceOut r.trace ++ "|" ++ toString r.sh, guard := "1" }
  | _ => { m := "UNKNOWN-STREAM" }

partial def loop (h : IO.FS.Stream) (out : IO.FS.Stream) : IO Unit := do
  let line ← h.getLine
  if line.isEmpty then return ()
  let l := (line.dropEndWhile (· = '\n')).toString
  if l.isEmpty then loop h out else
  let parts := (l.splitOn "\t").toArray
  let id := parts.getD 0 "?"
  let stream := parts.getD 1 "?"
  let a := answer stream (parts.extract 2 parts.size)
  out.putStrLn (id ++ "\t" ++ a.m ++ "\t" ++ a.s ++ "\t" ++ a.guard ++ "\t" ++ a.cls)
  loop h out

def main : IO Unit := do
  let out ← IO.getStdout
  loop (← IO.getStdin) out
  out.flush
