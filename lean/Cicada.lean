import Cicada.Basic
import Cicada.Generated
import Cicada.Codec
import Cicada.Model.ParserLine
import Cicada.Model.Execute
import Cicada.Spec.C03
import Cicada.Thm.C03
