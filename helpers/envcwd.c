/* envcwd NAME...: one line on stdout: <hex cwd>;<hex value or ~>,... (the environment and cwd a child really gets) */
#include <stdio.h>
#include <stdlib.h>
#include <unistd.h>
static void hex(const char *s) {
    if (!*s) { putchar('-'); return; }
    for (; *s; s++) printf("%02x", (unsigned char)*s);
}
int main(int argc, char **argv) {
    char buf[8192];
    if (!getcwd(buf, sizeof buf)) buf[0] = 0;
    hex(buf);
    putchar(';');
    for (int i = 1; i < argc; i++) {
        const char *v = getenv(argv[i]);
        if (i > 1) putchar(',');
        if (v) hex(v); else putchar('~');
    }
    putchar('\n');
    return 0;
}
