/* cond <id> : answers from a programmed status sequence.
 * $COND_DIR/<id>.seq holds blank-separated statuses (the last one repeats); $COND_DIR/<id>.n counts the calls.
 * Appends "cond <id>:<status>\n" to $STAGE_LOG. */
#include <fcntl.h>
#include <stdio.h>
#include <stdlib.h>
#include <string.h>
#include <unistd.h>
int main(int argc, char **argv) {
    if (argc < 2) return 2;
    const char *dir = getenv("COND_DIR");
    if (!dir) return 2;
    char p[512];
    int seq[64], n = 0, k = 0;
    snprintf(p, sizeof p, "%s/%s.seq", dir, argv[1]);
    FILE *f = fopen(p, "r");
    if (f) { while (n < 64 && fscanf(f, "%d", &seq[n]) == 1) n++; fclose(f); }
    snprintf(p, sizeof p, "%s/%s.n", dir, argv[1]);
    f = fopen(p, "r");
    if (f) { if (fscanf(f, "%d", &k) != 1) k = 0; fclose(f); }
    f = fopen(p, "w");
    if (f) { fprintf(f, "%d\n", k + 1); fclose(f); }
    int st = n == 0 ? 0 : seq[k < n ? k : n - 1];
    const char *log = getenv("STAGE_LOG");
    if (log) {
        int fd = open(log, O_WRONLY | O_APPEND | O_CREAT, 0644);
        if (fd >= 0) { char b[128]; int m = snprintf(b, sizeof b, "cond %s:%d\n", argv[1], st); if (write(fd, b, m) < 0) return 3; close(fd); }
    }
    return st;
}
