/* fgprobe <tag>
 * A stage that looks at the terminal while it runs: writes its pid to $SLEEPER_DIR/<tag>.pid like `sleeper`, waits a moment
 * (the parent's tcsetpgrp follows the fork), then records in $SLEEPER_DIR/<tag>.probe two digits: is the terminal's foreground
 * process group its own group, and is it the leader of that group.  Prints nothing, exits 0. */
#include <fcntl.h>
#include <stdio.h>
#include <stdlib.h>
#include <time.h>
#include <unistd.h>
static int put(const char *dir, const char *tag, const char *ext, const char *text) {
    char tmp[600], fin[600];
    snprintf(tmp, sizeof tmp, "%s/%s.%s.tmp", dir, tag, ext);
    snprintf(fin, sizeof fin, "%s/%s.%s", dir, tag, ext);
    int fd = open(tmp, O_WRONLY | O_CREAT | O_TRUNC, 0644);
    if (fd < 0) return 3;
    size_t n = 0; while (text[n]) n++;
    if (write(fd, text, n) != (ssize_t)n) return 3;
    close(fd);
    return rename(tmp, fin) != 0 ? 3 : 0;
}
int main(int argc, char **argv) {
    if (argc < 2) return 2;
    const char *dir = getenv("SLEEPER_DIR");
    if (!dir) return 2;
    char buf[64];
    snprintf(buf, sizeof buf, "%d\n", (int)getpid());
    if (put(dir, argv[1], "pid", buf)) return 3;
    struct timespec ts = {0, 150 * 1000 * 1000};
    nanosleep(&ts, NULL);
    int t = open("/dev/tty", O_RDONLY | O_NOCTTY);
    int own = t >= 0 && tcgetpgrp(t) == getpgrp();
    snprintf(buf, sizeof buf, "%d%d", own ? 1 : 0, getpgrp() == getpid() ? 1 : 0);
    if (put(dir, argv[1], "probe", buf)) return 3;
    return 0;
}
