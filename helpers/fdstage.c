/* BUILD: -static
 * fdstage <tag> [op...]
 * First thing: records the descriptors this process was started with (number, access mode, close-on-exec flag,
 * readlink target) into $OBS_DIR/<tag>.fds, its pid / pgid / ppid into $OBS_DIR/<tag>.pid, and appends "<tag>\n" to
 * $OBS_DIR/starts (one O_APPEND write).  Then performs the ops in order:
 *   P        record the parent's (the shell's) descriptor table into $OBS_DIR/<tag>.pfds
 *   R        read stdin to end-of-file and save it raw into $OBS_DIR/<tag>.stdin     F  the same, copying it to stdout
 *   S<text>  save text into $OBS_DIR/<tag>.S
 *   c        copy stdin to stdout until end-of-file (or until the write fails), recording nothing
 *   r        read stdin to end-of-file; byte count and FNV-1a hash go to $OBS_DIR/<tag>.in
 *   f        forward: read stdin to EOF copying every byte to stdout (count/hash recorded as for r)
 *   w<N>     write N pattern bytes to stdout (pattern: byte i = (i*131 + seed) & 0xff | never '\0'), seed from tag
 *   W<text>  write text and a newline to stdout
 *   E<text>  write text and a newline to stderr
 *   g        gate: write $OBS_DIR/<tag>.atgate, then block opening the FIFO $OBS_DIR/<tag>.gate for reading
 *   x<N>     exit with status N        xs<N>  kill itself with signal N
 * Without an x op the exit status is 0.  All side files are opened AFTER the initial scan. */
#include <dirent.h>
#include <errno.h>
#include <fcntl.h>
#include <signal.h>
#include <stdint.h>
#include <stdio.h>
#include <stdlib.h>
#include <string.h>
#include <sys/resource.h>
#include <unistd.h>

static const char *obs;
static const char *tag;

static void path(char *buf, size_t n, const char *suffix) { snprintf(buf, n, "%s/%s.%s", obs, tag, suffix); }

static void scan(const char *procdir, const char *suffix, int self) {
    /* collect first, open the side file afterwards */
    static char out[65536];
    size_t len = 0;
    if (self) {
        for (int fd = 0; fd < 256; fd++) {
            int fl = fcntl(fd, F_GETFD);
            if (fl < 0) continue;
            int st = fcntl(fd, F_GETFL);
            char lnk[64], tgt[512];
            snprintf(lnk, sizeof lnk, "/proc/self/fd/%d", fd);
            ssize_t k = readlink(lnk, tgt, sizeof tgt - 1);
            if (k < 0) k = 0;
            tgt[k] = 0;
            const char *m = (st & O_ACCMODE) == O_RDONLY ? "r" : (st & O_ACCMODE) == O_WRONLY ? "w" : "rw";
            len += snprintf(out + len, sizeof out - len, "%d %s%s%s %s\n", fd, m, (st & O_APPEND) ? "a" : "", (fl & FD_CLOEXEC) ? "c" : "", tgt);
        }
    } else {
        DIR *d = opendir(procdir);
        if (d) {
            struct dirent *e;
            while ((e = readdir(d))) {
                if (e->d_name[0] == '.') continue;
                char lnk[600], tgt[512], inf[600];
                snprintf(lnk, sizeof lnk, "%s/%s", procdir, e->d_name);
                ssize_t k = readlink(lnk, tgt, sizeof tgt - 1);
                if (k < 0) k = 0;
                tgt[k] = 0;
                /* access mode and close-on-exec flag from fdinfo */
                snprintf(inf, sizeof inf, "%sinfo/%s", procdir, e->d_name);
                const char *m = "?";
                char fl[16] = "";
                FILE *fi = fopen(inf, "re");
                if (fi) {
                    char ln[128];
                    while (fgets(ln, sizeof ln, fi)) {
                        unsigned long flags;
                        if (sscanf(ln, "flags: %lo", &flags) == 1) {
                            m = (flags & O_ACCMODE) == O_RDONLY ? "r" : (flags & O_ACCMODE) == O_WRONLY ? "w" : "rw";
                            snprintf(fl, sizeof fl, "%s%s", (flags & O_APPEND) ? "a" : "", (flags & O_CLOEXEC) ? "c" : "");
                        }
                    }
                    fclose(fi);
                }
                len += snprintf(out + len, sizeof out - len, "%s %s%s %s\n", e->d_name, m, fl, tgt);
            }
            closedir(d);
        }
    }
    char p[1024];
    path(p, sizeof p, suffix);
    int fd = open(p, O_WRONLY | O_CREAT | O_TRUNC | O_CLOEXEC, 0644);
    if (fd >= 0) { if (write(fd, out, len) < 0) {} close(fd); }
}

static void note(const char *suffix, const char *text) {
    char p[1024];
    path(p, sizeof p, suffix);
    int fd = open(p, O_WRONLY | O_CREAT | O_TRUNC | O_CLOEXEC, 0644);
    if (fd >= 0) { if (write(fd, text, strlen(text)) < 0) {} close(fd); }
}

static int seed_of(const char *t) { unsigned s = 7; while (*t) s = (s * 31 + (unsigned char)*t++) & 0xff; return (int)s; }

static void slurp(int forward, int save) {
    int sv = -1;
    if (save == 1) { char sp[1024]; path(sp, sizeof sp, "stdin"); sv = open(sp, O_WRONLY | O_CREAT | O_TRUNC | O_CLOEXEC, 0644); }
    static char buf[65536];
    uint64_t h = 1469598103934665603ULL, n = 0;
    for (;;) {
        ssize_t k = read(0, buf, sizeof buf);
        if (k < 0) { if (errno == EINTR) continue; break; }
        if (k == 0) break;
        for (ssize_t i = 0; i < k; i++) { h ^= (unsigned char)buf[i]; h *= 1099511628211ULL; }
        n += k;
        if (sv >= 0) { if (write(sv, buf, k) < 0) {} }
        if (forward) { ssize_t o = 0; while (o < k) { ssize_t w = write(1, buf + o, k - o); if (w < 0) { if (errno == EINTR) continue; goto done; } o += w; } }
    }
done:;
    if (sv >= 0) close(sv);
    char t[128];
    snprintf(t, sizeof t, "%llu %016llx\n", (unsigned long long)n, (unsigned long long)h);
    if (!save) note("in", t);
}

static void emit(long n) {
    static char buf[65536];
    int s = seed_of(tag);
    long i = 0;
    while (i < n) {
        long k = n - i < (long)sizeof buf ? n - i : (long)sizeof buf;
        for (long j = 0; j < k; j++) { int b = ((i + j) * 131 + s) & 0xff; buf[j] = b ? b : 1; }
        long o = 0;
        while (o < k) { ssize_t w = write(1, buf + o, k - o); if (w < 0) { if (errno == EINTR) continue; return; } o += w; }
        i += k;
    }
}

int main(int argc, char **argv) {
    if (argc < 2) return 2;
    obs = getenv("OBS_DIR");
    tag = argv[1];
    if (!obs) return 2;
    scan(NULL, "fds", 1);
    { struct rlimit rl; if (getrlimit(RLIMIT_NOFILE, &rl) == 0) { rl.rlim_cur = rl.rlim_max; setrlimit(RLIMIT_NOFILE, &rl); } }
    char t[128], p[1024];
    snprintf(t, sizeof t, "%d %d %d\n", (int)getpid(), (int)getpgrp(), (int)getppid());
    note("pid", t);
    snprintf(p, sizeof p, "%s/starts", obs);
    int sfd = open(p, O_WRONLY | O_APPEND | O_CREAT | O_CLOEXEC, 0644);
    if (sfd >= 0) { int n = snprintf(t, sizeof t, "%s\n", tag); if (write(sfd, t, n) < 0) {} close(sfd); }
    for (int i = 2; i < argc; i++) {
        const char *o = argv[i];
        if (o[0] == 'P') { snprintf(p, sizeof p, "/proc/%d/fd", (int)getppid()); scan(p, "pfds", 0); }
        else if (o[0] == 'c') slurp(1, 2);
        else if (o[0] == 'r') slurp(0, 0);
        else if (o[0] == 'R') slurp(0, 1);
        else if (o[0] == 'F') slurp(1, 1);
        else if (o[0] == 'S') note("S", o + 1);
        else if (o[0] == 'G') {   /* the disposition of SIGPIPE this program was started with (inherited through fork and exec) */
            struct sigaction sa;
            sigaction(SIGPIPE, NULL, &sa);
            note("S", sa.sa_handler == SIG_IGN ? "ign" : "dfl");
        }
        else if (o[0] == 'f') slurp(1, 0);
        else if (o[0] == 'w') emit(atol(o + 1));
        else if (o[0] == 'W' || o[0] == 'E') {   /* one write call: lines of concurrent stages never interleave */
            char lb[4096];
            int n = snprintf(lb, sizeof lb, "%s\n", o + 1);
            if (write(o[0] == 'W' ? 1 : 2, lb, n) < 0) {}
        }
        else if (o[0] == 'g') {
            note("atgate", "1\n");
            path(p, sizeof p, "gate");
            int g = open(p, O_RDONLY | O_CLOEXEC);
            if (g >= 0) close(g);
        }
        else if (o[0] == 'x') {
            if (o[1] == 's') { int sg = atoi(o + 2); signal(sg, SIG_DFL); kill(getpid(), sg); pause(); }
            return atoi(o + 1);
        }
    }
    return 0;
}
