/* sleeper <tag> [status]
 * Writes its pid to $SLEEPER_DIR/<tag>.pid (temporary name + rename, so a reader never sees a partial file).
 * Without <status> it then pauses for ever (default signal dispositions: SIGINT / SIGTERM / SIGKILL end it,
 * SIGTSTP / SIGSTOP stop it, SIGCONT resumes it); with <status> it exits with that status at once.
 * Never touches stdin/stdout/stderr, so members of a pipeline are independent of each other and of the
 * terminal.  A safety alarm ends a forgotten sleeper after 10 minutes. */
#include <fcntl.h>
#include <signal.h>
#include <stdio.h>
#include <stdlib.h>
#include <string.h>
#include <unistd.h>
int main(int argc, char **argv) {
    if (argc < 2) return 2;
    const char *dir = getenv("SLEEPER_DIR");
    if (!dir) return 2;
    char tmp[600], fin[600], buf[64];
    snprintf(tmp, sizeof tmp, "%s/%s.tmp", dir, argv[1]);
    snprintf(fin, sizeof fin, "%s/%s.pid", dir, argv[1]);
    int fd = open(tmp, O_WRONLY | O_CREAT | O_TRUNC, 0644);
    if (fd < 0) return 3;
    int n = snprintf(buf, sizeof buf, "%d\n", (int)getpid());
    if (write(fd, buf, n) != n) return 3;
    close(fd);
    if (rename(tmp, fin) != 0) return 3;
    if (argc >= 3) return atoi(argv[2]);
    alarm(600);
    for (;;) pause();
}
