/* argv [args...]: appends one record to $ARGV_LOG: "argc\n" then each argument hex-encoded on its own line, then "--\n". */
#include <fcntl.h>
#include <stdio.h>
#include <stdlib.h>
#include <string.h>
#include <unistd.h>
int main(int argc, char **argv) {
    const char *log = getenv("ARGV_LOG");
    if (!log) return 2;
    size_t cap = 64;
    for (int i = 0; i < argc; i++) cap += 2 * strlen(argv[i]) + 2;
    char *buf = malloc(cap), *p = buf;
    p += sprintf(p, "%d\n", argc);
    for (int i = 0; i < argc; i++) {
        if (!argv[i][0]) *p++ = '-';
        for (unsigned char *c = (unsigned char *)argv[i]; *c; c++) p += sprintf(p, "%02x", *c);
        *p++ = '\n';
    }
    p += sprintf(p, "--\n");
    int fd = open(log, O_WRONLY | O_APPEND | O_CREAT, 0644);
    if (fd < 0) return 3;
    if (write(fd, buf, p - buf) < 0) return 3;
    close(fd);
    return 0;
}
