/* stage <id> <status> [ignored args...]
 * Appends "<id>\n" to the file named by $STAGE_LOG (O_APPEND, one write) and exits with <status>.
 * An id "-" writes nothing; an extra argument d<N> makes it sleep N milliseconds before it ends; an extra argument "p" makes
 * it print "<id>\n" on its standard output as well.
 * With status "sigN" kills itself with signal N.  Used as a pipeline whose effect is observable
 * without touching the shell's stdout/stderr. */
#include <fcntl.h>
#include <signal.h>
#include <stdio.h>
#include <stdlib.h>
#include <string.h>
#include <unistd.h>
int main(int argc, char **argv) {
    if (argc < 3) return 2;
    const char *log = getenv("STAGE_LOG");
    if (log && strcmp(argv[1], "-") != 0) {
        int fd = open(log, O_WRONLY | O_APPEND | O_CREAT, 0644);
        if (fd >= 0) {
            char buf[256];
            int n = snprintf(buf, sizeof buf, "%s:%s\n", argv[1], argv[2]);
            if (write(fd, buf, n) < 0) return 3;
            close(fd);
        }
    }
    for (int i = 3; i < argc; i++)
        if (strcmp(argv[i], "p") == 0) { printf("%s\n", argv[1]); fflush(stdout); }
    for (int i = 3; i < argc; i++)
        if (argv[i][0] == 'd' && argv[i][1] >= '0' && argv[i][1] <= '9') usleep(1000 * atoi(argv[i] + 1));
    if (strncmp(argv[2], "sig", 3) == 0) {
        signal(atoi(argv[2] + 3), SIG_DFL);
        kill(getpid(), atoi(argv[2] + 3));
        pause();
    }
    return atoi(argv[2]);
}
