#!/usr/bin/env python3
"""Regenerate the generated tables of DESIGN.md (§0.3 findings, §0.4 seeds) from known_findings.json and seeded/*/meta.json."""
import json, os, re
V = os.path.dirname(os.path.dirname(os.path.abspath(__file__)))
k = json.load(open(os.path.join(V, "known_findings.json")))
out = ["**Repaired** (`fix:` commits in /repo; each is one minimal unguarded commit, the 55 baseline tests pass unedited; the `fixed:` lines of",
       "`known_findings.json` suppress nothing):", ""]
for f in k["fixed"]:
    out.append("* " + f[len("fixed: "):] if f.startswith("fixed: ") else "* " + f)
out += ["", "**Open known findings** (model = implementation ≠ reference semantics; each class is computed by the Lean driver from the input, has a",
        "kernel-checked witness where one is listed, and is printed as `KNOWN-FINDING:` only while the implementation still behaves exactly as the model):", "",
        "| id | what fails | site |", "|---|---|---|"]
for x in sorted(k["open"], key=lambda x: x["id"]):
    out.append("| %s | %s | %s |" % (x["id"], x["what"].replace("|", "\\|")[:260], x.get("site", "").replace("|", "\\|")[:160]))
find = "\n".join(out)
rows = ["| seed | property | what it needs to manifest | caught by |", "|---|---|---|---|"]
sd = os.path.join(V, "seeded")
for d in sorted(os.listdir(sd)):
    mp = os.path.join(sd, d, "meta.json")
    if os.path.exists(mp):
        m = json.load(open(mp))
        need = (m.get("needs_to_manifest") or m.get("needs") or "")
        rows.append("| %s | %s | %s | %s |" % (d, m.get("property", ""), need.replace("|", "\\|").replace("\n", " ")[:300], (m.get("caught_by") or "").replace("|", "\\|").replace("\n", " ")[:300]))
seeds = "\n".join(rows)
p = os.path.join(V, "DESIGN.md")
s = open(p).read()
s = re.sub(r"(<!-- BEGIN GENERATED findings -->\n).*?(<!-- END GENERATED findings -->)", lambda m: m.group(1) + find + "\n" + m.group(2), s, flags=re.S)
s = re.sub(r"(<!-- BEGIN GENERATED seeds -->\n).*?(<!-- END GENERATED seeds -->)", lambda m: m.group(1) + seeds + "\n" + m.group(2), s, flags=re.S)
open(p, "w").write(s)
