#!/usr/bin/env python3
"""Write MANIFEST.json from the table below (kept in one place so it stays valid)."""
import json, os, subprocess
V = os.path.dirname(os.path.dirname(os.path.abspath(__file__)))
props = [json.loads(l) for l in open(os.path.join(V, "properties.jsonl"))]

CLAIMS = {
 "C09": dict(
   text="Lean 4 theorems over the model of shell variables, the exported environment and the working directory (Model/EnvCd.lean: set_env / remove_env / child environment / export / unset / read with IFS / cd with the file system as a parameter): C09_cd_failed_noop (a failing cd - missing target, non-directory, `cd -` without a previous directory, too many arguments - changes nothing, for every state and every file system), C09_cd_minus_returns, C09_assign_not_exported, C09_assign_updates_exported, C09_prefixed_scoped, C09_export_seen_everywhere, C09_unset_removes_everywhere, C09_read_fields (split-at-every-blank-and-drop-empties = splitting at runs of blanks, for every line). Tied to /repo by histories of up to 30 operations run (a) in-process through execute::run_command_line with the real builtins, observing status, real cwd, previous_dir, expansion / environment / shell-variable value of six names after every line, and (b) as scripts by the plain binary on a generated tree with symlinks, observing `$?`, \"$NAME\" expansions, and a real child's environment and cwd delivered through a relative redirection; both compared with the Lean model and the reference semantics.",
   note="Trusted: Lean kernel; the kernel's path resolution is a parameter of the theorems (any function from path text to missing / not-a-directory / canonical directory); the driver instantiates it with a finite tree whose resolution (`.`, `..`, empty components, absolute and relative symlinks, loops) is validated against the real kernel by the correspondence. Modelled, not proved about the Rust: quoting of the rendered lines (covered by C01 / C16), the HashMap order of several NAME=v on one line (independent names only).",
   technique="Lean 4 proof (invariants and laws of the variable / environment / cwd state machine, file system as parameter) + model-implementation correspondence on operation histories, in-process and process-level",
   design="DESIGN.md §6 C09"),
 "C18": dict(
   text="Lean 4 theorems over the model of the SQL text the shell builds: C18_literal_roundtrip (for EVERY text - quotes, percent signs, backslashes, semicolons, `--`, non-ASCII - the literal built by quote doubling is read back by SQLite's string-literal lexer as exactly that text, and the lexer stops exactly at the closing quote: injection-freedom of each spliced field), C18_insert_values (the VALUES part of add_raw's INSERT parses back to exactly (trimmed line, session id, dir:<dir>|) - all three fields have gone through that encoding since a fix: commit), C18_delete_exact, C18_add_appends. Tied to /repo by process-level sequences: add / list-with-pattern / delete, each operation run by its own cicada process on one shared database, in working directories named with quotes, percent signs, blanks, backslashes; the table is read back with an independent SQLite client (python sqlite3) and compared with the Lean model (rows, rowids, order, LIKE listing results) and the spec.",
   note="Trusted: Lean kernel; SQLite itself and rusqlite (only the string-literal lexing and LIKE are modelled; the model's rowid rule and LIKE are validated against SQLite by the differential); the prompt's record rule (leading blank, immediate repeat) is modelled (shouldRecord) but only exercised by pty sessions when built; durability is observed (separate processes), not proved.",
   technique="Lean 4 proof (induction over the text through the literal lexer) + model/implementation correspondence with an independent SQLite client",
   design="DESIGN.md §6 C18"),
 "C06": dict(
   text="Lean model of the job table (insert_job, remove_pid_from_job, stopped/continued marking), of wait_fg_job over a queue of kernel notifications and of the prompt-time poll (handle_sigchld parking + try_wait_bg_jobs), and an abstract world of running/stopped/gone processes as reference. Theorems: a job launched under a new group id takes the smallest unused id (C06_new_id_least_unused), parking loses no exit notification (C06_park_keeps_exits), the foreground wait returns exactly at the notification completing its count and leaves the rest pending (C06_wait_returns_on_count); three finding classes are refuted against the world by kernel-checked witnesses. Tied to /repo by replaying 30 000 random histories (thorough 600 000; <= 3 jobs, <= 3 processes, non-monotone pids, stop/continue cycles ending in exit/kill, waits and polls at random delivery points) on the real Shell/jobc/signals code through scripted kernel notifications, compared with the model after every operation and with the world at the end.",
   note="Trusted: Lean kernel; hand-written model; which notifications Linux can deliver is the generator's assumption; handle_sigchld's own four-way mapping is replaced by the hook's park_event in-process (exercised for real only by pty sessions); the refinement table = world on the finding-free domain is checked by the stream, not yet a theorem.",
   technique="Lean 4 proof (induction over the id scan, over the notification queue) + model/implementation correspondence on operation histories",
   design="DESIGN.md §6 C06"),
 "C15": dict(
   text="Lean 4 theorems over the model of scripting::expand_args: C15_pos_ref (in pre$Npost the reference is replaced by the N-th argument and the adjacent text is preserved, for every argument list, every pre/post free of `$` and newlines), C15_index / C15_missing_is_empty / C15_all (what the value is: the N-th argument, nothing past the end, the arguments from the first on joined by blanks), C15_sq_untouched. The model is tied to /repo by in-process streams on expand_args_for_single_token / expand_args over words of 1..5 literal / $n / ${n} / $@ segments (vs the Lean spec specArgs) under argument lists with blanks, quotes, `$1`, empty strings. Functions (both header spellings, names with - and _), source chains of depth 3 (variables, functions persist), `exit N`, `set -e`, and the status of scripts, sourced files and function calls are exercised on the real binary against the documented outcome; the function-status defect found there was repaired by a fix: commit.",
   note="Trusted: Lean kernel; hand-written model of positional expansion; functions, source, exit, set -e and statuses are checked by process-level scenarios only (not modelled in Lean): for those the assurance is that of a regression suite over generated scenarios, stated here rather than claimed as proof.",
   technique="Lean 4 proof (list lemmas over the reference scanner) + model/implementation correspondence + process-level scenarios",
   design="DESIGN.md §6 C15"),
 "C14": dict(
   text="Lean models of the script grammar (grammar.pest read as a character-level PEG with pest's implicit whitespace, producing pest's pair tree) and of the interpreter (run_exp, run_exp_if, run_exp_test_br, run_exp_for, run_exp_while over that tree), plus a textbook structured semantics semBlock over ASTs. Theorems: a stray block terminator makes the whole script a syntax error whatever follows (C14_stray_fi/done/else; the snapshot's silent skip is refuted and was repaired by a fix: commit adding EOI), exactly the first true arm of an if runs and later conditions are not evaluated, a failing arm is skipped, break ends the innermost loop only. The interpreter refinement run_lines(render b) = semBlock b is evaluated by the compiled Lean definitions on every generated AST and compared with the implementation, but is not yet a theorem. Tied to /repo by: pest parse trees of 12 000 generated/mutated/keyword-soup scripts vs the PEG model (identical on all), 3 000 random ASTs executed in-process under a scripted run_proc with programmed status sequences and watched loop variables, and 150 through the real binary with marker-writing helpers.",
   note="Trusted: Lean kernel; hand-written PEG and interpreter models (validated by correspondence on generated scripts only); the refinement between interpreter model and structured semantics and the PEG round trip are runtime-checked instances, not theorems; run_command_line on each line is a parameter (C03).",
   technique="Lean 4 proof (PEG evaluation lemmas, semantics lemmas) + model/implementation correspondence on parse trees and executed traces",
   design="DESIGN.md §6 C14"),
 "C11": dict(
   text="Lean 4 theorems over the model of do_command_substitution: C11_find (in pre$(cmd)post the greedy search finds exactly cmd), C11_splice_literal (for EVERY output text - $1, ${x}, $name, $$, backslashes, braces, regex specials - the word becomes pre ++ output ++ post; nothing in the output is interpreted by the splice), C11_backquote_match, C11_rejected_is_empty (an inner command that cannot be planned is replaced by nothing and the loop goes on - no hang). Five open finding classes are kept visible (both-side trim, output rescanned, inner text pre-expanded, text after a word-initial backquote substitution, unquoted output re-read). Tied to /repo by in-process plan streams with scripted outputs (39 outputs x 2 spellings x 4 positions x 2 quotings), the substitution pass on random token lists incl. rejected inner commands, and the real binary (printf outputs; a counting helper for run-exactly-once).",
   note="Trusted: Lean kernel; hand-written model; running the inner command is an oracle keyed by the planned argv (scripted in-process, real processes in the binary stream); exactly-once is checked at process level only; stderr/state isolation of the inner command is not modelled.",
   technique="Lean 4 proof (list lemmas over the greedy search and the splice) + model/implementation correspondence check",
   design="DESIGN.md §6 C11"),
 "C16": dict(
   text="The entry points differ in one step: the script path (script file, function body, sourced file) passes each line through scripting::expand_args = tokens_to_line . expand_args_in_tokens . parse_line before run_command_line, -c does not. Lean 4 theorem C16_rerender_id: for every command of the C01 domain (plain word + single/double-quoted arguments of any content the style can express) and every positional-parameter list, the script path reproduces the line character for character, hence the same plans (C16_same_plan). Unquoted backslash escapes are refuted by kernel-checked witnesses (KF-C16-unquoted-escape). Tied to /repo by in-process streams on expand_args / expand_args_for_single_token / is_args_in_token and by running generated lines through four entry points of the real binary, compared pairwise with -c on argv records, created files and status.",
   note="Trusted: Lean kernel; hand-written model; the interactive-prompt entry (trim_multiline_prompts, !! expansion) is not yet compared (needs the pty driver); lines with positional parameters are C15's business; a function call's status is excluded from the comparison (C15 finding).",
   technique="Lean 4 proof (tokenizer round trip composed with wrap_sep_string lemmas) + model/implementation correspondence and entry-point differential",
   design="DESIGN.md §6 C16"),
 "C17": dict(
   text="Lean 4 theorems over the model of expand_alias and the alias/unalias builtins: C17_expand (for every alias table and every list of pipeline stages not starting with xargs, exactly the command word of each stage is replaced by the words of its value, every other token untouched; replacement is structurally once - C17_self), finite-map laws for define/redefine/unalias (C17_unalias, lookup_*). Findings with witnesses: the word after xargs is expanded (pinned by a baseline test), listings of values containing ' or > do not recreate the alias. Tied to /repo by in-process streams: expand_alias on generated stage lists, random sequences of define (3 spellings)/redefine/unalias/list/show/use through the real builtins, and the listing fed back to a fresh shell.",
   note="Trusted: Lean kernel; hand-written model; the listing round trip is checked by correspondence only (no theorem); process-level use through the binary is covered by C16/C01 streams, not here.",
   technique="Lean 4 proof (induction over tokens with the head-of-stage flag; map laws) + model/implementation correspondence check",
   design="DESIGN.md §6 C17"),
 "C13": dict(
   text="Lean 4 theorem C13_dq_var: a plain command whose arguments are double-quoted \"$N\" / \"${N}\" deliveries is expanded and planned as one foreground stage without redirections, each value arriving verbatim as exactly one argument - for every environment and every value (operators, blanks, globs, braces, $ included) that does not itself spell a command substitution. The excluded values and the unquoted form are genuine defects, refuted by kernel-checked witnesses (a value `cmd` is executed inside double quotes; X='|' builds a pipeline; X='a>b' redirects) and listed as three known-finding classes. Tied to /repo by in-process plan streams: 40 operator-bearing values x 4 delivery forms x 2 quotings x 4 positions plus random mixes, and double-quoted deliveries through the real binary with an argv helper and a created-files check.",
   note="Trusted: Lean kernel; hand-written model; command outputs are an oracle (scripted in-process); filename-expansion deliveries are exercised by C12's streams, not by this theorem; unquoted deliveries are only checked for plan shape.",
   technique="Lean 4 proof (composition of the C10 theorem with pass-identity and planning lemmas) + model/implementation correspondence check",
   design="DESIGN.md §6 C13"),
 "C19": dict(
   text="Lean 4 theorems over the model of the calculator: C19_pratt (for every tree that standard precedence/associativity print without parentheses, pest's Pratt loop with the table regenerated from calculator/mod.rs parses the flat form back to exactly that tree; table facts are decide-d over the generated constant), C19_classify (the classification rule, both directions, all strings), C19_wrap_hom (+ - * in 64-bit mode equal exact arithmetic mod 2^64), C19_div (truncation, /0 saturation, MIN/-1), and crash freedom (C05_calc_no_panic). Tied to /repo by every string <= 5 (thorough 6) over the arithmetic alphabet through is_arithmetic and run_calculator, and 20 000 random trees over boundary operands rendered with random spacing and redundant parentheses, implementation vs model vs the Lean reference evaluator (incl. ^ with exponents 0..70).",
   note="Trusted: Lean kernel; hand-written model of the PEG and of pest's Pratt loop; Mathlib's ring tactic in the homomorphism lemmas; float mode is structural only (Lean's Float is opaque to the kernel); ^ is checked against the exact power by the correspondence stream, not by a theorem; out-of-range literals saturate (their value is outside the statement).",
   technique="Lean 4 proof (induction over expression trees generalised over binding power; modular arithmetic) + model/implementation correspondence check",
   design="DESIGN.md §6 C19"),
 "C10": dict(
   text="Lean 4 theorem C10_full_holds over the model of the single-pass expander (expand_envs_in_token): for every environment - values containing $NAME, ${NAME}, $1, self or mutual references included - and every well-formed word of literal / $NAME / ${NAME} / $? / $$ segments, the result is exactly the concatenation of the current values with adjacent text preserved; the function is total, so termination holds by construction. Single-quoted tokens are never touched (C10_token_sq). The snapshot's rewrite loop is refuted by kernel-checked witnesses (rescan, divergence). Tied to /repo by in-process streams over all words of <= 2 segments (thorough 3) x 3 quotings x 12 environments, random words up to 6 segments, random `$`-heavy texts, and a sample through the binary.",
   note="Trusted: Lean kernel; hand-written model; the gate env_in_token is modelled and checked differentially but the theorem takes its verdict as a hypothesis (C10_token_dq); std::env is two finite maps; tokens holding a newline are covered by the model but not by the word grammar of the theorem.",
   technique="Lean 4 proof (fuel irrelevance + induction over segments) + model/implementation correspondence check",
   design="DESIGN.md §6 C10"),
 "C12": dict(
   text="Lean 4 theorems over the model of brace_getitem/brace_getgroup, expand_brace, expand_home, expand_glob's filter and expand_brace_range: C12_brace (for every brace term of any nesting, any number of alternatives, empty alternatives and one-element groups, whatever the fuelled parser answers is the left-to-right cartesian product, and some fuel answers), C12_brace_token, C12_home, C12_order and C12_quoted_untouched (order kept, nothing inside quotes), C12_glob_* (matches in the matcher's order, hidden entries only on request, word kept when nothing matches, words with blanks tagged as one argument). Tied to /repo by in-process streams: grammar-generated terms, every string <= 7 over `{ } , a b`, range bounds incl. i32 limits with and without surrounding text, tilde words, `*` patterns in a fixture directory with the glob crate's own answers as oracle.",
   note="Trusted: Lean kernel; hand-written model; the glob crate's matcher and sort order are an oracle parameter (exercised, not proved); the range sequence is checked against rangeSpec by the correspondence stream only (no theorem yet); fuel 2*len+2 of expand_brace is shown sufficient by the sweep, not by a theorem.",
   technique="Lean 4 proof (mutual structural induction over brace terms, fuel monotonicity) + model/implementation correspondence check",
   design="DESIGN.md §6 C12"),
 "C01": dict(
   text="Lean 4 theorem C01_partial over the hand-written model of line_to_cmds, parse_line, the seven expansion passes, env draining, the & test, pipe splitting, Command::from_tokens and tokens_to_redirections: for every environment and every list of single- or double-quoted arguments (any length, any characters the style can express, empty strings) after a plain program word, alone or before ; && ||, the first pipeline is planned as one stage whose argv is exactly those strings, with no redirection, stdin source, background flag or environment. The escaped style is refuted by kernel-checked witnesses and listed as 8 known-finding classes. Model tied to /repo by exhaustive in-process differential streams over the 29-symbol metacharacter alphabet (all texts <= 2 in every style/position/context, <= 3 as last argument; thorough one longer) and a sample through the real binary with an argv-recording helper.",
   note="Trusted: Lean kernel; the hand-written model (validated on generated inputs only); execve/CString conversion not modelled (NUL bytes excluded); the `| q` context and the escaped style are outside the proved domain (escaped style: open findings KF-C01-esc-*).",
   technique="Lean 4 proof (scanner invariants by induction over the line, pass-is-identity lemmas composed along do_expansion, planning lemmas) + model/implementation correspondence check",
   design="DESIGN.md §6 C01"),
 "C05": dict(
   text="In the Lean model every reachable Rust panic site is an explicit Outcome.panic and every rewrite-until-fixpoint loop is fuelled; theorems: planning a line (tokenizer, all expansion passes, draining, splitting, redirections) never panics for any line, environment, oracle and fuel (C05_plan_no_panic); the calculator never panics (C05_calc_no_panic); every planned command has a first token so dispatch cannot index an empty list (C05_no_empty_command, C05_head_no_panic); every builtin name is dispatched (over constants regenerated from the source). Tied to /repo by an exhaustive sweep of all strings <= 4 (thorough 5) over the 14-symbol alphabet through line_to_cmds / parse_line / from_line / the run_pipeline head in-process under catch_unwind and a fork watchdog, plus random lines through every single pass; five crash/hang defects found this way were repaired by fix: commits.",
   note="Trusted: Lean kernel; hand-written model; termination is proved only for the passes that are total by construction (substitution loops are fuelled; a command whose output again contains $(...) can loop - finding of C11); highlighter, completion boundary search and pty key sequences are not yet in the model (exercised by C20/C07 streams when built).",
   technique="Lean 4 proof of panic-freedom (mutual induction over the fuelled planner) + exhaustive short-string differential sweep",
   design="DESIGN.md §6 C05"),
 "C03": dict(
   text="Lean 4 theorems over a hand-written model of line_to_cmds and the run_command_line loop: for every program whose segments are pipelines (any text in which list operators are quoted/escaped), every run_proc and every shell state, list splitting recovers exactly the pipelines and operators and the loop executes exactly the reference semantics (trace, statuses, final $?). The model is tied to /repo on every run by in-process differential streams (all 18 662 operator/status programs up to length 6, random programs up to 12, exhaustive short strings) and by the real binary via -c and script files.",
   note="Trusted: Lean kernel; hand-written model (validated by correspondence only on generated inputs); run_proc is a parameter of the theorem (its own behaviour is the business of other properties); trailing `&` and `#` comments inside a segment are outside the proved domain; process scheduling is not modelled.",
   technique="Lean 4 proof (structural induction over the line and over the program) + model/implementation correspondence check",
   design="DESIGN.md §6 C03"),
}

def main():
    hooks_commits = subprocess.run(["git", "-C", "/repo", "log", "--format=%h %s", "--grep=^verif hooks"], capture_output=True, text=True).stdout.strip().split("\n")
    m = {
     "version": 1,
     "setup_cmd": "./check setup",
     "hooks": {
       "guard": "cicada_verif",
       "enable": "RUSTFLAGS='--cfg cicada_verif' (set in harness/.cargo/config.toml; the harness crate depends on /repo by path)",
       "baseline_off_cmd": "cd /repo && cargo test --workspace --no-fail-fast --offline",
       "source_commits": [c.split(" ")[0] for c in hooks_commits if c],
       "add_only": True,
     },
     "engines": [
       {"name": "lean-model", "path": "lean/", "serves_properties": sorted(CLAIMS), "kind_free_text": "Lean 4 model, specs and theorems; compiled driver cicada_model"},
       {"name": "cvh", "path": "harness/", "serves_properties": sorted(CLAIMS), "kind_free_text": "Rust in-process correspondence harness calling /repo through cfg(cicada_verif) hooks"},
       {"name": "check", "path": "check", "serves_properties": sorted(CLAIMS), "kind_free_text": "Python driver: regenerates constants, builds, audits axioms, generates cases, compares, verdict, evidence"},
     ],
     "checks": [],
     "not_applicable": [],
     "notes": "All checks: ./check <id> [--tier quick|thorough] [--seed N]; known findings in known_findings.json; design in DESIGN.md.",
    }
    for p in props:
        i = p["id"]
        if i in CLAIMS:
            c = CLAIMS[i]
            m["checks"].append({
              "property_id": i,
              "quick_cmd": "./check %s --tier quick" % i,
              "thorough_cmd": "./check %s --tier thorough" % i,
              "evidence_file": "evidence/%s.json" % i,
              "replay_cmd_template": "./check replay {path}",
              "engine": "lean-model",
              "level_claimed": {"category": "proof", "text": c["text"], "design_ref": c["design"]},
              "level_note": c["note"],
              "technique": c["technique"],
            })
        else:
            m["not_applicable"].append({"property_id": i, "reason": "not claimed yet: model, theorems and correspondence stream for this property are not built at this commit (see DESIGN.md §9.4 for the order of work)"})
    with open(os.path.join(V, "MANIFEST.json"), "w") as f:
        json.dump(m, f, indent=1)
        f.write("\n")

if __name__ == "__main__":
    main()
