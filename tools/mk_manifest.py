#!/usr/bin/env python3
"""Write MANIFEST.json from the table below (kept in one place so it stays valid)."""
import json, os, subprocess
V = os.path.dirname(os.path.dirname(os.path.abspath(__file__)))
props = [json.loads(l) for l in open(os.path.join(V, "properties.jsonl"))]

CLAIMS = {
 "C03": dict(
   text="Lean 4 theorems over a hand-written model of line_to_cmds and the run_command_line loop: for every program whose segments are pipelines (any text in which list operators are quoted/escaped), every run_proc and every shell state, list splitting recovers exactly the pipelines and operators and the loop executes exactly the reference semantics (trace, statuses, final $?). The model is tied to /repo on every run by in-process differential streams (all 18 662 operator/status programs up to length 6, random programs up to 12, exhaustive short strings) and by the real binary via -c and script files.",
   note="Trusted: Lean kernel; hand-written model (validated by correspondence only on generated inputs); run_proc is a parameter of the theorem (its own behaviour is the business of other properties); trailing `&` and `#` comments inside a segment are outside the proved domain; process scheduling is not modelled.",
   technique="Lean 4 proof (structural induction over the line and over the program) + model/implementation correspondence check",
   design="DESIGN.md §6 C03"),
}

def main():
    hooks_commits = subprocess.run(["git", "-C", "/repo", "log", "--format=%h %s", "--grep=^verif hooks"], capture_output=True, text=True).stdout.strip().split("\n")
    m = {
     "version": 1,
     "setup_cmd": "./check setup",
     "hooks": {
       "guard": "cicada_verif",
       "enable": "RUSTFLAGS='--cfg cicada_verif' (set in harness/.cargo/config.toml; the harness crate depends on /repo by path)",
       "baseline_off_cmd": "cd /repo && cargo test --workspace --no-fail-fast --offline",
       "source_commits": [c.split(" ")[0] for c in hooks_commits if c],
       "add_only": True,
     },
     "engines": [
       {"name": "lean-model", "path": "lean/", "serves_properties": sorted(CLAIMS), "kind_free_text": "Lean 4 model, specs and theorems; compiled driver cicada_model"},
       {"name": "cvh", "path": "harness/", "serves_properties": sorted(CLAIMS), "kind_free_text": "Rust in-process correspondence harness calling /repo through cfg(cicada_verif) hooks"},
       {"name": "check", "path": "check", "serves_properties": sorted(CLAIMS), "kind_free_text": "Python driver: regenerates constants, builds, audits axioms, generates cases, compares, verdict, evidence"},
     ],
     "checks": [],
     "not_applicable": [],
     "notes": "All checks: ./check <id> [--tier quick|thorough] [--seed N]; known findings in known_findings.json; design in DESIGN.md.",
    }
    for p in props:
        i = p["id"]
        if i in CLAIMS:
            c = CLAIMS[i]
            m["checks"].append({
              "property_id": i,
              "quick_cmd": "./check %s --tier quick" % i,
              "thorough_cmd": "./check %s --tier thorough" % i,
              "evidence_file": "evidence/%s.json" % i,
              "replay_cmd_template": "./check replay {path}",
              "engine": "lean-model",
              "level_claimed": {"category": "proof", "text": c["text"], "design_ref": c["design"]},
              "level_note": c["note"],
              "technique": c["technique"],
            })
        else:
            m["not_applicable"].append({"property_id": i, "reason": "not claimed yet: model, theorems and correspondence stream for this property are not built at this commit (see DESIGN.md §9.4 for the order of work)"})
    with open(os.path.join(V, "MANIFEST.json"), "w") as f:
        json.dump(m, f, indent=1)
        f.write("\n")

if __name__ == "__main__":
    main()
