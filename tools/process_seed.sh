#!/bin/bash
# process_seed.sh <PROP>...: confirm the agent's seed in its scratch worktree, archive it under seeded/, run the property's check against it
cd /verif
for p in "$@"; do
  tools/confirm_seed.sh $p
  n=1; while [ -d seeded/$p-$n ]; do n=$((n+1)); done; d=seeded/$p-$n; mkdir -p $d
  cp /tmp/seed_${p}_out/patch.diff $d/; cp /tmp/seed_${p}_out/demo.* $d/; cp /tmp/seed_${p}_out/notes.md $d/ 2>/dev/null; cp /tmp/seed_${p}_out/confirm.log $d/
  ls /tmp/seed_${p}_out/*.c 2>/dev/null | xargs -I{} cp {} $d/
  tools/try_seed.sh /verif/$d $p 2>&1 | cut -c1-220 > /tmp/try_$p-$n.log
  echo "##### $p-$n  confirm: $(grep -E 'equals|exit=' $d/confirm.log | tr '\n' ' ')"
  grep -E "VIOLATION|check\]|apply|local edits" /tmp/try_$p-$n.log | head -4
done
