#!/bin/bash
# confirm_seed.sh <PROP>: in the agent's scratch worktree /tmp/seed_<PROP>/repo (change applied) confirm: builds, baseline tests
# pass, demo FAILS; then reverse the patch, rebuild, demo PASSES; restore the patch.  Output: /tmp/seed_<PROP>_out/confirm.log
P=$1; W=/tmp/seed_$P/repo; O=/tmp/seed_${P}_out
cd $W || exit 2
demo=$(ls $O/demo.* | head -1)
{
echo "== patched: git diff --stat"; git diff --stat | tail -3
echo "== patch.diff equals worktree diff: $(diff <(git diff) $O/patch.diff >/dev/null && echo yes || echo NO)"
echo "== build (patched)"; cargo build --offline 2>&1 | tail -1
echo "== tests (patched)"; timeout 900 cargo test --offline --no-fail-fast 2>&1 | grep -E "^test result|FAILED|failed" | head -6
echo "== demo on patched binary"; timeout 600 $demo $W/target/debug/cicada > $O/demo_patched.out 2>&1; echo "exit=$?"; tail -3 $O/demo_patched.out
git apply -R $O/patch.diff || echo "REVERSE APPLY FAILED"
echo "== build (unpatched)"; cargo build --offline 2>&1 | tail -1
echo "== demo on unpatched binary"; timeout 600 $demo $W/target/debug/cicada > $O/demo_clean.out 2>&1; echo "exit=$?"; tail -3 $O/demo_clean.out
git apply $O/patch.diff
} > $O/confirm.log 2>&1
