#!/bin/bash
# seed_regress.sh <seed-id>... : for every archived seeded change, apply it to the repository named by $CICADA_REPO (default /repo),
# run the quick check of its property, undo it, and print one line: CAUGHT / MISSED.  Used to re-validate the whole collection
# after the generators have changed (run it from a `vp run --with-repo` snapshot so that /repo itself stays untouched).
R=${CICADA_REPO:-/repo}
V=$(cd "$(dirname "$0")/.." && pwd)
for s in "$@"; do
  p=${s%-*}
  ( cd "$R" && git diff --quiet || { echo "$s SKIPPED: $R has local edits"; exit 1; } ) || continue
  if ! git -C "$R" apply "$V/seeded/$s/patch.diff" 2>/dev/null; then echo "$s PATCH-DOES-NOT-APPLY"; continue; fi
  out=$(cd "$V" && timeout 1800 ./check "$p" --tier quick 2>&1)
  git -C "$R" checkout -- .
  n=$(echo "$out" | grep -c "^VIOLATION")
  if [ "$n" -gt 0 ]; then echo "$s CAUGHT ($n violation lines)"; else echo "$s MISSED :: $(echo "$out" | grep 'check\] C' | tail -1 | cut -c1-120)"; fi
done
