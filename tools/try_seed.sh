#!/bin/bash
# try_seed.sh <seed-dir> <prop>... : apply a seeded change to /repo, run the given checks, always undo it.
set -u
seed=$1; shift
cd /repo || exit 2
git diff --quiet || { echo "/repo has local edits"; exit 2; }
git apply "$seed/patch.diff" || { echo "patch does not apply"; exit 2; }
for p in "$@"; do
  echo "=== $p with $(basename $seed)"
  (cd /verif && timeout 1500 ./check "$p" --tier quick 2>&1 | grep -E "VIOLATION|KNOWN|check\] C|BUILD" | cut -c1-220 | head -12)
  echo "exit=$?"
done
git -C /repo checkout -- .
