/-! Spike: brace_getitem / brace_getgroup (src/shell.rs:490-587) as fuel-indexed mutual recursion, and the
    round trip `getItem (render w) = denote w` for brace terms (mutual structural induction). -/
namespace Br
abbrev Str := List Char

def prod (out g : List Str) : List Str := out.flatMap fun x => g.map fun y => x ++ y

mutual
def itemLoop : Nat → List Str → Str → Nat → Option (List Str × Str)
  | 0, _, _, _ => none
  | _ + 1, out, [], _ => some (out, [])
  | f + 1, out, c :: cs, d =>
    if d > 0 ∧ (c = ',' ∨ c = '}') then some (out, c :: cs)
    else if c = '{' then
      match groupLoop f [] false cs (d + 1) with
      | none => none
      | some (some (grp, s')) => itemLoop f (prod out grp) s' d
      | some none => itemLoop f (out.map (· ++ [c])) cs d
    else if c = '\\' then
      match cs with
      | c2 :: cs2 => itemLoop f (out.map (· ++ ['\\', c2])) cs2 d
      | [] => itemLoop f (out.map (· ++ [c])) cs d
    else itemLoop f (out.map (· ++ [c])) cs d
def groupLoop : Nat → List Str → Bool → Str → Nat → Option (Option (List Str × Str))
  | 0, _, _, _, _ => none
  | _ + 1, _, _, [], _ => some none
  | f + 1, out, comma, c0 :: cs0, d =>
    match itemLoop f [[]] (c0 :: cs0) d with
    | none => none
    | some (_, []) => some none
    | some (g, c :: cs) =>
      if c = '}' then
        (if comma then some (some (out ++ g, cs))
         else some (some ((out ++ g).map (fun x => '{' :: x ++ ['}']), c :: cs)))   -- pinned tree: `}` not consumed
      else if c = ',' then groupLoop f (out ++ g) true cs d
      else groupLoop f (out ++ g) comma (c :: cs) d
end

#eval (itemLoop 50 [[]] "a{1,2}b{x,{y,z}}".toList 0).map (fun r => r.1.map String.ofList)
#eval (itemLoop 50 [[]] "{a}{b,c}".toList 0).map (fun r => r.1.map String.ofList)   -- the observed defect

mutual
inductive Word | nil | cons (t : Term) (w : Word)
inductive Term | lit (c : Char) | grp (a : Alts)
inductive Alts | one (w : Word) | more (w : Word) (r : Alts)
end

mutual
def render : Word → Str
  | .nil => []
  | .cons t w => renderT t ++ render w
def renderT : Term → Str
  | .lit c => [c]
  | .grp a => '{' :: (renderA a ++ ['}'])
def renderA : Alts → Str
  | .one w => render w
  | .more w r => render w ++ ',' :: renderA r
end

mutual
def denote : Word → List Str
  | .nil => [[]]
  | .cons t w => prod (denoteT t) (denote w)
def denoteT : Term → List Str
  | .lit c => [[c]]
  | .grp a => denoteA a
def denoteA : Alts → List Str
  | .one w => denote w
  | .more w r => denote w ++ denoteA r
end

def plainC (c : Char) : Prop := c ≠ '{' ∧ c ≠ '}' ∧ c ≠ ',' ∧ c ≠ '\\'
mutual
def okW : Word → Prop
  | .nil => True
  | .cons t w => okT t ∧ okW w
def okT : Term → Prop
  | .lit c => plainC c
  | .grp a => okA a ∧ two a
def okA : Alts → Prop
  | .one w => okW w
  | .more w r => okW w ∧ okA r
def two : Alts → Prop
  | .one _ => False
  | .more _ _ => True
end

/-! ### algebra of `prod` -/
theorem prod_nil_right (out : List Str) : prod out [[]] = out := by
  simp [prod]
theorem prod_unit_left (g : List Str) : prod [[]] g = g := by
  simp [prod]
theorem prod_assoc (a b c : List Str) : prod (prod a b) c = prod a (prod b c) := by
  simp [prod, List.flatMap_assoc, List.map_flatMap, List.flatMap_map, List.append_assoc, Function.comp_def]
theorem prod_lit (out : List Str) (c : Char) : prod out [[c]] = out.map (· ++ [c]) := by
  induction out with
  | nil => simp [prod]
  | cons x xs ih => simp_all [prod, List.flatMap_cons]

/-! ### fuel monotonicity -/
theorem mono : ∀ f : Nat,
    (∀ out s d r, itemLoop f out s d = some r → itemLoop (f + 1) out s d = some r) ∧
    (∀ out cm s d r, groupLoop f out cm s d = some r → groupLoop (f + 1) out cm s d = some r) := by
  intro f
  induction f with
  | zero => exact ⟨by simp [itemLoop], by simp [groupLoop]⟩
  | succ n ih =>
    obtain ⟨ihI, ihG⟩ := ih
    constructor
    · intro out s d r h
      cases s with
      | nil => simpa [itemLoop] using h
      | cons c cs =>
        simp only [itemLoop] at h ⊢
        split
        · simpa [*] using h
        · rename_i h1; simp only [h1, if_false] at h
          split
          · rename_i h2; simp only [h2, if_true] at h
            cases hg : groupLoop n [] false cs (d + 1) with
            | none => simp [hg] at h
            | some og =>
              rw [ihG _ _ _ _ _ hg]; simp only [hg] at h
              cases og with
              | none => simp only at h; have := ihI _ _ _ _ h; simpa [h2] using this
              | some p => obtain ⟨grp, s'⟩ := p; simp only at h; simpa using ihI _ _ _ _ h
          · rename_i h2; simp only [h2, if_false] at h
            split
            · rename_i h3; simp only [h3, if_true] at h
              cases cs with
              | nil => simp only at h; have := ihI _ _ _ _ h; simpa [h3] using this
              | cons c2 cs2 => simp only at h; simpa using ihI _ _ _ _ h
            · rename_i h3; simp only [h3, if_false] at h; exact ihI _ _ _ _ h
    · intro out cm s d r h
      cases s with
      | nil => simpa [groupLoop] using h
      | cons c0 cs0 =>
        rw [groupLoop] at h ⊢
        cases hi : itemLoop n [[]] (c0 :: cs0) d with
        | none => simp [hi] at h
        | some p =>
          rw [ihI _ _ _ _ hi]; simp only [hi] at h
          obtain ⟨g, s'⟩ := p
          cases s' with
          | nil => simpa using h
          | cons c cs =>
            simp only at h ⊢
            split
            · rename_i h1; simpa [h1] using h
            · rename_i h1; simp only [h1, if_false] at h
              split
              · rename_i h2; simp only [h2, if_true] at h; exact ihG _ _ _ _ _ h
              · rename_i h2; simp only [h2, if_false] at h; exact ihG _ _ _ _ _ h

theorem monoI {f g : Nat} (h : f ≤ g) {out s d r} : itemLoop f out s d = some r → itemLoop g out s d = some r := by
  induction h with
  | refl => exact id
  | step _ ih => exact fun x => (mono _).1 _ _ _ _ (ih x)
theorem monoG {f g : Nat} (h : f ≤ g) {out cm s d r} : groupLoop f out cm s d = some r → groupLoop g out cm s d = some r := by
  induction h with
  | refl => exact id
  | step _ ih => exact fun x => (mono _).2 _ _ _ _ _ (ih x)

def stopsAt (rest : Str) : Prop := ∃ c cs, rest = c :: cs ∧ (c = ',' ∨ c = '}')

/-! ### the round trip, by mutual structural induction -/
mutual
theorem itemW (w : Word) : ∀ (out : List Str) (rest : Str) (d f : Nat) (res), okW w → d > 0 → stopsAt rest →
    itemLoop f (prod out (denote w)) rest d = some res → ∃ g, itemLoop g out (render w ++ rest) d = some res := by
  cases w with
  | nil => intro out rest d f res _ _ _ h; exact ⟨f, by simpa [render, denote, prod_nil_right] using h⟩
  | cons t w =>
    intro out rest d f res hok hd hst h
    obtain ⟨hokT, hokW⟩ := hok
    cases t with
    | lit c =>
      obtain ⟨p1, p2, p3, p4⟩ := hokT
      have h' : itemLoop f (prod (out.map (· ++ [c])) (denote w)) rest d = some res := by
        simpa [denote, denoteT, ← prod_assoc, prod_lit] using h
      obtain ⟨g, hg⟩ := itemW w _ rest d f res hokW hd hst h'
      refine ⟨g + 1, ?_⟩
      simp [render, renderT, itemLoop, p1, p2, p3, p4, hg]
    | grp a =>
      obtain ⟨hokA, htwo⟩ := hokT
      have h' : itemLoop f (prod (prod out (denoteA a)) (denote w)) rest d = some res := by
        simpa [denote, denoteT, prod_assoc] using h
      obtain ⟨g1, hg1⟩ := itemW w _ rest d f res hokW hd hst h'
      obtain ⟨g2, hg2⟩ := groupA a [] false (render w ++ rest) (d + 1) hokA (by omega) (Or.inr htwo)
      refine ⟨max g1 g2 + 1, ?_⟩
      have e : render (Word.cons (Term.grp a) w) ++ rest = '{' :: (renderA a ++ '}' :: (render w ++ rest)) := by
        simp [render, renderT, List.append_assoc]
      rw [e]; simp only [itemLoop]
      have hne : ¬ (d > 0 ∧ (('{' : Char) = ',' ∨ ('{' : Char) = '}')) := by simp
      simp only [hne, if_false, if_true]
      rw [monoG (Nat.le_max_right g1 g2) hg2]
      simpa using monoI (Nat.le_max_left g1 g2) hg1
theorem groupA (a : Alts) : ∀ (out : List Str) (cm : Bool) (rest : Str) (d : Nat), okA a → d > 0 → (cm = true ∨ two a) →
    ∃ g, groupLoop g out cm (renderA a ++ '}' :: rest) d = some (some (out ++ denoteA a, rest)) := by
  cases a with
  | one w =>
    intro out cm rest d hok hd hc
    have hcm : cm = true := by rcases hc with h | h; exact h; exact absurd h (by simp [two])
    have base : itemLoop 1 (prod [[]] (denote w)) ('}' :: rest) d = some (denote w, '}' :: rest) := by
      simp [itemLoop, hd, prod_unit_left]
    obtain ⟨g, hg⟩ := itemW w [[]] ('}' :: rest) d 1 _ hok hd ⟨'}', rest, rfl, Or.inr rfl⟩ base
    refine ⟨g + 1, ?_⟩
    cases hr : render w ++ '}' :: rest with
    | nil => simp at hr
    | cons c0 cs0 =>
      simp only [renderA, hr, groupLoop]
      rw [hr] at hg
      simp [hg, hcm, denoteA]
  | more w r =>
    intro out cm rest d hok hd _
    obtain ⟨hokW, hokR⟩ := hok
    obtain ⟨g2, hg2⟩ := groupA r (out ++ denote w) true rest d hokR hd (Or.inl rfl)
    have base : itemLoop 1 (prod [[]] (denote w)) (',' :: (renderA r ++ '}' :: rest)) d
        = some (denote w, ',' :: (renderA r ++ '}' :: rest)) := by
      simp [itemLoop, hd, prod_unit_left]
    obtain ⟨g1, hg1⟩ := itemW w [[]] _ d 1 _ hokW hd ⟨',', _, rfl, Or.inl rfl⟩ base
    refine ⟨max g1 g2 + 1, ?_⟩
    have e : renderA (Alts.more w r) ++ '}' :: rest = render w ++ ',' :: (renderA r ++ '}' :: rest) := by
      simp [renderA, List.append_assoc]
    rw [e]
    cases hr : render w ++ ',' :: (renderA r ++ '}' :: rest) with
    | nil => simp at hr
    | cons c0 cs0 =>
      rw [hr] at hg1
      simp only [groupLoop]
      rw [monoI (Nat.le_max_left g1 g2) hg1]
      simp only
      have : ¬ ((',' : Char) = '}') := by decide
      simp only [this, if_false, if_true]
      simpa [denoteA, List.append_assoc] using monoG (Nat.le_max_right g1 g2) hg2
end
end Br

/-- top-level corollary inside a group context: parsing `{alts}` at depth 0 yields the denotation -/
theorem Br.brace_group_roundtrip (a : Br.Alts) (h : Br.okA a) (h2 : Br.two a) :
    ∃ g, Br.itemLoop g [[]] (Br.renderT (.grp a)) 0 = some (Br.denoteA a, []) := by
  obtain ⟨g2, hg2⟩ := Br.groupA a [] false [] 1 h (by omega) (Or.inr h2)
  refine ⟨g2 + 2, ?_⟩
  simp only [Br.renderT, Br.itemLoop]
  have hne : ¬ (0 > 0 ∧ (('{' : Char) = ',' ∨ ('{' : Char) = '}')) := by simp
  simp only [hne, if_false, if_true]
  rw [Br.monoG (Nat.le_succ g2) hg2]
  simp [Br.itemLoop, Br.prod_unit_left]
#print axioms Br.brace_group_roundtrip
