/-! Spike: parse_line (src/parsers/parser_line.rs:164-473), non-arithmetic branch. -/
namespace PL
abbrev Str := List Char
abbrev Tok := Str × Str

structure St where
  result : List Tok := []
  sep : Str := []
  sepSecond : Str := []
  token : Str := []
  bs : Bool := false
  metParen : Bool := false
  newRound : Bool := true
  skipNext : Bool := false
  hasDollar : Bool := false
  parensLeftIgnored : Bool := false
  sepMade : Str := []
  semiOk : Bool := false
  stop : Bool := false
  deriving Repr, DecidableEq

def isAlnumU (c : Char) : Bool := c.isAlphanum || c = '_'
/-- `^[a-zA-Z0-9_]+=.*$` (no '\n' after '=') -/
def reEnv : Str → Bool
  | [] => false
  | c :: cs => isAlnumU c && go cs
where go : Str → Bool
  | [] => false
  | c :: cs => if c = '=' then cs.all (· ≠ '\n') else isAlnumU c && go cs

def isQ (c : Char) : Bool := c = '\'' || c = '"' || c = '`'

/-- push current token using sep_made if (sep empty and sep_made set) else `sp` -/
def pushTok (s : St) (sp : Str) : St :=
  if s.sep = [] ∧ s.sepMade ≠ [] then { s with result := s.result ++ [(s.sepMade, s.token)], sepMade := [] }
  else { s with result := s.result ++ [(sp, s.token)] }

def resetTok (s : St) : St := { s with sep := [], sepSecond := [], token := [], newRound := true }

def stepTail (s : St) (c : Char) : St :=
  if c = ' ' then
    if s.semiOk then { resetTok (pushTok s s.sep) with semiOk := false }
    else if s.metParen then { s with token := s.token ++ [c] }
    else if s.sep = ['\\'] then { s with result := s.result ++ [(['\\'], s.token)], token := [], newRound := true }
    else if s.sep = [] then
      if s.sepSecond = [] then { pushTok s [] with token := [], newRound := true }
      else { s with token := s.token ++ [c] }
    else { s with token := s.token ++ [c] }
  else if isQ c then
    let s := if s.sep ≠ [c] ∧ s.semiOk then { resetTok (pushTok s s.sep) with semiOk := false } else s
    if s.sep ≠ [c] ∧ s.metParen then { s with token := s.token ++ [c] }
    else if s.sep = [] ∧ s.sepSecond ≠ [] ∧ s.sepSecond ≠ [c] then { s with token := s.token ++ [c] }
    else if s.sep = [] then
      if !reEnv s.token ∧ (c = '\'' ∨ c = '"') then { s with sep := [c] }
      else
        let s := { s with token := s.token ++ [c] }
        if s.sepSecond = [] then { s with sepSecond := [c] }
        else if s.sepSecond = [c] then { s with sepSecond := [] } else s
    else if s.sep = [c] then { s with semiOk := true }
    else { s with token := s.token ++ [c] }
  else { s with token := s.token ++ [c] }

def stepMid (s : St) (c : Char) : St :=
  if c = '|' then
    if s.semiOk then
      let s := pushTok s s.sep
      { resetTok { s with result := s.result ++ [([], ['|'])] } with semiOk := false }
    else if !s.metParen ∧ s.sepSecond = [] ∧ s.sep = [] then
      let s := pushTok s []
      resetTok { s with result := s.result ++ [([], ['|'])] }
    else stepTail s c
  else stepTail s c

def step (s : St) (c : Char) (next : Option Char) : St :=
  if s.stop then s else
  if s.skipNext then { s with skipNext := false } else
  if s.bs ∧ s.sep = [] ∧ (c = '>' ∨ c = '<') then
    { s with sepMade := ['\''], token := s.token ++ [c], bs := false } else
  if s.bs ∧ s.sep = ['"'] ∧ c ≠ '"' then
    { s with token := s.token ++ ['\\', c], bs := false } else
  if s.bs then
    (if s.newRound ∧ s.sep = [] ∧ (c = '|' ∨ c = '$') ∧ s.token = [] then
      { s with sep := ['\\'], token := [c], newRound := false, bs := false }
     else { s with token := s.token ++ [c], newRound := false, bs := false }) else
  let s := if c = '$' then { s with hasDollar := true } else s
  if c = '(' ∧ s.sep = [] ∧ !s.hasDollar ∧ s.token = [] then { s with parensLeftIgnored := true } else
  let s := if c = '(' ∧ s.sep = [] then { s with metParen := true } else s
  if c = ')' ∧ s.parensLeftIgnored ∧ !s.hasDollar ∧ (next = none ∨ next = some ' ') then s else
  let s := if c = ')' ∧ s.sep = [] then { s with metParen := false } else s
  if c = '\\' then
    (if s.sep = ['\''] ∨ s.sepSecond ≠ [] then { s with token := s.token ++ [c] } else { s with bs := true }) else
  if s.newRound then
    if c = ' ' then s else
    if isQ c then { s with sep := [c], newRound := false } else
    let s := { s with sep := [] }
    if c = '#' then { s with stop := true } else
    if c = '|' then
      (if next = some '|' then { s with result := s.result ++ [([], ['|', '|'])], skipNext := true, newRound := true }
       else { s with result := s.result ++ [([], ['|'])], newRound := true })
    else { s with token := s.token ++ [c], newRound := false }
  else stepMid s c

def go (s : St) : Str → St
  | [] => s
  | c :: rest => go (step s c rest.head?) rest

def finish (s : St) : List Tok :=
  if s.token ≠ [] ∨ s.semiOk then
    if s.sep = [] ∧ s.sepMade ≠ [] then s.result ++ [(s.sepMade, s.token)] else s.result ++ [(s.sep, s.token)]
  else s.result

def parseLine (l : Str) : List Tok := finish (go {} l)

def show' (l : String) : List (String × String) := (parseLine l.toList).map fun (a, b) => (String.ofList a, String.ofList b)

#eval show' "echo 'hi yoo' | grep \"hi\""
#eval show' "rd6 foo\\>bar\\ baz end"
#eval show' "export DIR=`brew --prefix openssl`/include"
#eval show' "echo 123'foo bar'"
#eval show' "man awk| awk -F \"[ ,.\\\"]+\" 'foo' |sort -k2nr|head"
#eval show' "(ls -lh)"
#eval show' "echo A$(foo bar)B"
#eval show' "Foo=\"a b c\" ./foo.sh"
#eval show' "echo a || echo b # c"

/-! ## single-quoted argument lemma -/

/-- clean state between words -/
def Clean (s : St) : Prop :=
  s.stop = false ∧ s.skipNext = false ∧ s.bs = false ∧ s.newRound = true ∧ s.token = [] ∧
  s.semiOk = false ∧ s.metParen = false ∧ s.sepSecond = [] ∧ s.sepMade = [] ∧ s.parensLeftIgnored = false ∧
  s.sep ≠ ['\'']

/-- state inside an open single quote having read `t` -/
def InSq (s : St) : Prop :=
  s.stop = false ∧ s.skipNext = false ∧ s.bs = false ∧ s.newRound = false ∧
  s.semiOk = false ∧ s.metParen = false ∧ s.sepSecond = [] ∧ s.sepMade = [] ∧ s.parensLeftIgnored = false ∧
  s.sep = ['\'']

theorem step_inSq (s : St) (c : Char) (n : Option Char) (h : InSq s) (hc : c ≠ '\'') :
    InSq (step s c n) ∧ (step s c n).token = s.token ++ [c] ∧ (step s c n).result = s.result := by
  obtain ⟨h1, h2, h3, h4, h5, h6, h7, h8, h9, h10⟩ := h
  have hc' : ¬ '\'' = c := fun h => hc h.symm
  unfold step
  simp only [h1, h2, h3, h4, h10]
  by_cases hd : c = '$' <;> by_cases hb : c = '\\' <;> by_cases hp : c = '|' <;> by_cases hs : c = ' ' <;>
    by_cases hq : isQ c = true <;>
    simp_all [InSq, stepMid, stepTail, isQ] <;> (try (split <;> simp_all)) 

/-- reading the body of a single-quoted word -/
theorem go_sq_body (s : St) (body rest : Str) (h : InSq s) (hb : ∀ c ∈ body, c ≠ '\'') :
    ∃ s', go s (body ++ rest) = go s' rest ∧ InSq s' ∧ s'.token = s.token ++ body ∧ s'.result = s.result := by
  induction body generalizing s with
  | nil => exact ⟨s, by simp, h, by simp, rfl⟩
  | cons c cs ih =>
    have hstep := step_inSq s c ((cs ++ rest).head?) h (hb c (by simp))
    obtain ⟨s', e1, e2, e3, e4⟩ := ih (step s c ((cs ++ rest).head?)) hstep.1 (fun x hx => hb x (by simp [hx]))
    refine ⟨s', ?_, e2, ?_, ?_⟩
    · simpa [go] using e1
    · rw [e3, hstep.2.1]; simp
    · rw [e4, hstep.2.2]

/-- a full single-quoted word followed by a space, from a clean state -/
theorem go_sq_word (s : St) (body rest : Str) (h : Clean s) (hb : ∀ c ∈ body, c ≠ '\'') :
    ∃ s', go s ('\'' :: body ++ '\'' :: ' ' :: rest) = go s' rest ∧ Clean s' ∧
      s'.result = s.result ++ [(['\''], body)] ∧ s'.hasDollar = (s.hasDollar || body.contains '$') := by
  sorry
end PL
