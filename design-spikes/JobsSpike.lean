/-! Spike: job table + wait_fg_job + try_wait_bg_jobs (src/shell.rs:59-242, src/jobc.rs:125-238,
    src/signals.rs) with scripted kernel notifications; used to confirm defects (b), (c), (d) of DESIGN §6/C06
    at model level. `removePid` already uses linear search (the intended repair of (a)). -/
namespace J
abbrev Pid := Nat

inductive Ev | exited (p : Pid) (st : Int) | killed (p : Pid) (sig : Int) | stopped (p : Pid) | continued (p : Pid)
  deriving Repr, DecidableEq
def Ev.pid : Ev → Pid | .exited p _ => p | .killed p _ => p | .stopped p => p | .continued p => p

structure Job where
  id : Nat
  gid : Pid
  pids : List Pid
  stoppedSet : List Pid := []
  status : String := "Running"
  isBg : Bool := false
  deriving Repr, DecidableEq

structure Sh where
  jobs : List Job := []                 -- kept sorted by id; HashMap<i32, Job> in the code
  reap : List (Pid × Int) := []
  kill : List (Pid × Int) := []
  stop : List Pid := []
  cont : List Pid := []
  deriving Repr

def freeId (jobs : List Job) : Nat → Nat → Nat
  | 0, i => i
  | f + 1, i => if jobs.any (·.id = i) then freeId jobs f (i + 1) else i

/-- insert_job: walk ids from 1; a job with the same gid met on the way gets the pid appended -/
def insertJob (s : Sh) (gid pid : Pid) (bg : Bool) : Sh :=
  let rec go (fuel i : Nat) : Sh :=
    match fuel with
    | 0 => s
    | f + 1 =>
      match s.jobs.find? (·.id = i) with
      | some j => if j.gid = gid then
          { s with jobs := s.jobs.map fun x => if x.id = i then { x with pids := x.pids ++ [pid] } else x }
        else go f (i + 1)
      | none => { s with jobs := (s.jobs ++ [{ id := i, gid := gid, pids := [pid], isBg := bg }]) }
  go (s.jobs.length + 1) 1

def updGid (s : Sh) (gid : Pid) (f : Job → Job) : Sh :=
  -- first job (lowest id) with this gid, as the `loop` from i = 1 finds it
  match s.jobs.find? (·.gid = gid) with
  | none => s
  | some j => { s with jobs := s.jobs.map fun x => if x.id = j.id then f x else x }

def removePid (s : Sh) (gid pid : Pid) : Sh × Option Job :=
  match s.jobs.find? (·.gid = gid) with
  | none => (s, none)
  | some j =>
    let j' := { j with pids := j.pids.erase pid }
    if j'.pids.isEmpty then ({ s with jobs := s.jobs.filter (·.id ≠ j.id) }, some j')
    else ({ s with jobs := s.jobs.map fun x => if x.id = j.id then j' else x }, none)

def Job.allStopped (j : Job) : Bool := j.pids.all (j.stoppedSet.contains ·)
def Job.allRunning (j : Job) : Bool := j.stoppedSet.isEmpty

def markMemberStopped (s : Sh) (pid gid : Pid) : Sh :=
  let s := updGid s gid fun j => { j with stoppedSet := if j.stoppedSet.contains pid then j.stoppedSet else j.stoppedSet ++ [pid] }
  match s.jobs.find? (·.gid = gid) with
  | some j => if j.allStopped then updGid s gid fun j => { j with status := "Stopped", isBg := true } else s
  | none => s

def markMemberContinued (s : Sh) (pid gid : Pid) : Sh :=
  let s := updGid s gid fun j => { j with stoppedSet := j.stoppedSet.erase pid }
  match s.jobs.find? (·.gid = gid) with
  | some j => if j.allRunning then updGid s gid fun j => { j with status := "Running", stoppedSet := [], isBg := true } else s
  | none => s

/-- wait_fg_job over a scripted notification list; returns state, status, unconsumed notifications -/
def waitFg (s : Sh) (gid : Pid) (pids : List Pid) : List Ev → Nat → Int → Sh × Int × List Ev
  | [], _, st => (s, st, [])           -- ECHILD
  | e :: rest, waited, st =>
    let pid := e.pid
    let isFg := pids.contains pid
    let waited := match e with | .continued _ => waited | _ => if isFg then waited + 1 else waited
    match e with
    | .continued _ =>
        let s := if isFg then s else { s with cont := if s.cont.contains pid then s.cont else s.cont ++ [pid] }
        waitFg s gid pids rest waited st
    | _ =>
      let s := match e with
        | .exited _ c => if isFg then (removePid s gid pid).1 else { s with reap := s.reap ++ [(pid, c)] }
        | .killed _ g => if isFg then (removePid s gid pid).1 else { s with kill := s.kill ++ [(pid, g)] }
        | .stopped _ => if isFg then markMemberStopped s pid gid
                        else markMemberStopped { s with stop := if s.stop.contains pid then s.stop else s.stop ++ [pid] } pid 0
        | .continued _ => s
      let st := if isFg ∧ some pid = pids.getLast? then
          (match e with | .exited _ c => c | .killed _ g => g + 128 | .stopped _ => 128 + 20 | _ => st) else st
      if waited ≥ pids.length then (s, st, rest) else waitFg s gid pids rest waited st

/-- handle_sigchld: drain pending notifications into the maps -/
def drain (s : Sh) : List Ev → Sh
  | [] => s
  | .exited p c :: r => drain { s with reap := s.reap ++ [(p, c)] } r
  | .killed p g :: r => drain { s with kill := s.kill ++ [(p, g)] } r
  | .stopped p :: r => drain { s with stop := if s.stop.contains p then s.stop else s.stop ++ [p] } r
  | .continued p :: r => drain { s with cont := if s.cont.contains p then s.cont else s.cont ++ [p] } r

/-- try_wait_bg_jobs: over a snapshot of the table, one parked event per pid -/
def pollBg (s : Sh) : Sh :=
  let snapshot := s.jobs
  snapshot.foldl (fun s job =>
    job.pids.foldl (fun s pid =>
      if s.reap.any (·.1 = pid) then (removePid { s with reap := s.reap.filter (·.1 ≠ pid) } job.gid pid).1
      else if s.kill.any (·.1 = pid) then (removePid { s with kill := s.kill.filter (·.1 ≠ pid) } job.gid pid).1
      else if s.stop.contains pid then markMemberStopped { s with stop := s.stop.erase pid } pid job.gid
      else if s.cont.contains pid then markMemberContinued { s with cont := s.cont.erase pid } pid job.gid
      else s) s) s

def view (s : Sh) := s.jobs.map fun j => (j.id, j.gid, j.pids, j.status)

-- (b) foreground job {10, 11}: 10 stops, continues, stops again → wait returns although 11 still runs
def s0 : Sh := insertJob (insertJob {} 10 10 false) 10 11 false
#eval let (s, st, rest) := waitFg s0 10 [10, 11] [.stopped 10, .continued 10, .stopped 10, .exited 11 0] 0 0
      (view s, st, rest)
-- (c) 10 stops, 11 exits → job keeps "Running" with its only live member stopped
#eval let (s, st, rest) := waitFg s0 10 [10, 11] [.stopped 10, .exited 11 0] 0 0
      (view s, st, rest)
-- (d) background job 20: continue-then-stop parked together → after one poll Stopped, after a second poll Running (wrong)
def b0 : Sh := { insertJob {} 20 20 true with jobs := (insertJob {} 20 20 true).jobs.map fun j => { j with stoppedSet := [20], status := "Stopped" } }
#eval view (pollBg (drain b0 [.continued 20, .stopped 20]))
#eval view (pollBg (pollBg (drain b0 [.continued 20, .stopped 20])))
-- ids: least unused
#eval view (insertJob (removePid (insertJob (insertJob (insertJob {} 1 1 true) 2 2 true) 3 3 true) 2 2).1 4 4 true)
end J
