/-! Spike: run_command_line evaluation loop (src/execute.rs:28-51) and its spec. -/
namespace Spike

inductive Op | semi | and | or deriving DecidableEq, Repr
inductive Item | cmd (c : Nat) | sep (o : Op) deriving Repr

/-- current code: `break` on short-circuit -/
def loopBreak (run : Nat → Int) : List Item → Option Op → Int → List Nat → List Nat × Int
  | [], _, st, tr => (tr, st)
  | Item.sep o :: rest, _, st, tr => loopBreak run rest (some o) st tr
  | Item.cmd c :: rest, sep, st, tr =>
    if sep = some Op.and ∧ st ≠ 0 then (tr, st)
    else if sep = some Op.or ∧ st = 0 then (tr, st)
    else loopBreak run rest sep (run c) (tr ++ [c])

/-- repaired code: `continue` on short-circuit -/
def loopCont (run : Nat → Int) : List Item → Option Op → Int → List Nat → List Nat × Int
  | [], _, st, tr => (tr, st)
  | Item.sep o :: rest, _, st, tr => loopCont run rest (some o) st tr
  | Item.cmd c :: rest, sep, st, tr =>
    if sep = some Op.and ∧ st ≠ 0 then loopCont run rest sep st tr
    else if sep = some Op.or ∧ st = 0 then loopCont run rest sep st tr
    else loopCont run rest sep (run c) (tr ++ [c])

/-- spec: p1 (op p)* evaluated left to right -/
def spec (run : Nat → Int) : List (Op × Nat) → Int → List Nat → List Nat × Int
  | [], st, tr => (tr, st)
  | (o, c) :: rest, st, tr =>
    match o with
    | Op.semi => spec run rest (run c) (tr ++ [c])
    | Op.and => if st = 0 then spec run rest (run c) (tr ++ [c]) else spec run rest st tr
    | Op.or => if st ≠ 0 then spec run rest (run c) (tr ++ [c]) else spec run rest st tr

def render : List (Op × Nat) → List Item
  | [] => []
  | (o, c) :: rest => Item.sep o :: Item.cmd c :: render rest

theorem loopCont_refines (run : Nat → Int) (ps : List (Op × Nat)) (o0 : Option Op) (st : Int) (tr : List Nat) :
    loopCont run (render ps) o0 st tr = spec run ps st tr := by
  induction ps generalizing o0 st tr with
  | nil => simp [render, loopCont, spec]
  | cons p rest ih =>
    obtain ⟨o, c⟩ := p
    cases o <;> simp [render, loopCont, spec, ih] <;> split <;> simp_all

/-- the unrepaired loop violates the spec: `false && a ; b` -/
theorem loopBreak_violates :
    ∃ run ps, loopBreak run (Item.cmd 0 :: render ps) none 0 [] ≠ spec run ps (run 0) [0] := by
  refine ⟨fun c => if c = 0 then 1 else 0, [(Op.and, 1), (Op.semi, 2)], ?_⟩
  decide
end Spike
