/-! Spike: line_to_cmds (src/parsers/parser_line.rs:47-149) as a structural recursion with one-char lookahead. -/
namespace Spike.L2C

def isWs (c : Char) : Bool := c = ' ' || c = '\t' || c = '\n' || c = '\r'
def trimL : List Char → List Char
  | [] => []
  | c :: cs => if isWs c then trimL cs else c :: cs
def trim (l : List Char) : List Char := (trimL (trimL l).reverse).reverse

structure S where
  result : List (List Char) := []
  sep : List Char := []
  token : List Char := []
  bs : Bool := false
  stop : Bool := false
  deriving Repr, DecidableEq

def pushTrim (r : List (List Char)) (t : List Char) : List (List Char) :=
  let t' := trim t
  if t'.isEmpty then r else r ++ [t']

def step (s : S) (c : Char) (next : Option Char) : S :=
  if s.stop then s else
  if s.bs then { s with token := s.token ++ ['\\', c], bs := false } else
  if c = '\\' ∧ s.sep ≠ ['\''] then { s with bs := true } else
  if c = '#' then
    if s.sep.isEmpty then { s with stop := true } else { s with token := s.token ++ [c] }
  else if c = '\'' ∨ c = '"' ∨ c = '`' then
    if s.sep.isEmpty then { s with sep := [c], token := s.token ++ [c] }
    else if s.sep = [c] then { s with sep := [], token := s.token ++ [c] }
    else { s with token := s.token ++ [c] }
  else if c = '&' ∨ c = '|' then
    if s.sep.isEmpty ∧ (next = none ∨ next ≠ some c) then { s with token := s.token ++ [c] }
    else if s.sep.isEmpty then { s with sep := [c] }
    else if s.sep = [c] then
      { s with result := pushTrim s.result s.token ++ [[c, c]], token := [], sep := [] }
    else { s with token := s.token ++ [c] }
  else if c = ';' then
    if s.sep.isEmpty then { s with result := pushTrim s.result s.token ++ [[';']], token := [] }
    else { s with token := s.token ++ [c] }
  else { s with token := s.token ++ [c] }

def go (s : S) : List Char → S
  | [] => s
  | c :: rest => go (step s c rest.head?) rest

def finish (s : S) : List (List Char) :=
  if s.token.isEmpty then s.result else s.result ++ [trim s.token]

def lineToCmds (l : List Char) : List (List Char) := finish (go {} l)

#eval (lineToCmds "echo foo && echo bar; echo end".toList).map String.ofList
#eval (lineToCmds "a 'x;y' || b # c".toList).map String.ofList

def plain (c : Char) : Prop :=
  c ≠ '\\' ∧ c ≠ '#' ∧ c ≠ '\'' ∧ c ≠ '"' ∧ c ≠ '`' ∧ c ≠ '&' ∧ c ≠ '|' ∧ c ≠ ';'

theorem step_plain (s : S) (c : Char) (n : Option Char) (hc : plain c)
    (h1 : s.stop = false) (h2 : s.bs = false) :
    step s c n = { s with token := s.token ++ [c] } := by
  obtain ⟨a1, a2, a3, a4, a5, a6, a7, a8⟩ := hc
  simp [step, h1, h2, a1, a2, a3, a4, a5, a6, a7, a8]

theorem go_plain (s : S) (seg rest : List Char) (hseg : ∀ c ∈ seg, plain c)
    (h1 : s.stop = false) (h2 : s.bs = false) :
    go s (seg ++ rest) = go { s with token := s.token ++ seg } rest := by
  induction seg generalizing s with
  | nil => simp
  | cons c cs ih =>
    simp only [List.cons_append, go]
    rw [step_plain s c _ (hseg c (by simp)) h1 h2]
    rw [ih _ (fun x hx => hseg x (by simp [hx])) (by simpa using h1) (by simpa using h2)]
    simp [List.append_assoc]

end Spike.L2C
