//! cvh — in-process correspondence harness for the Lean model of cicada.
//!
//! usage: cvh <cases-file> <out-file>
//! One case per line: `id \t stream \t field...` (strings hex-encoded UTF-8,
//! the empty string is `-`).  One output line per case: `id \t observation`.
//! Every case runs under catch_unwind; a panic is the observation `PANIC`.
use std::collections::HashMap;
use std::fs::File;
use std::io::{BufRead, BufReader, BufWriter, Write};
use std::panic;

use cicada::verif_hooks as vh;

fn unhex(s: &str) -> String {
    if s == "-" {
        return String::new();
    }
    let b: Vec<u8> = (0..s.len() / 2)
        .map(|i| u8::from_str_radix(&s[2 * i..2 * i + 2], 16).unwrap())
        .collect();
    String::from_utf8(b).expect("case is not utf-8")
}

fn hex(s: &str) -> String {
    if s.is_empty() {
        return "-".to_string();
    }
    let mut o = String::with_capacity(s.len() * 2);
    for b in s.as_bytes() {
        o.push_str(&format!("{:02x}", b));
    }
    o
}

fn hex_list(v: &[String]) -> String {
    if v.is_empty() {
        return "[]".to_string();
    }
    v.iter().map(|x| hex(x)).collect::<Vec<_>>().join(",")
}

fn toks_out(v: &[(String, String)]) -> String {
    if v.is_empty() {
        return "[]".to_string();
    }
    v.iter().map(|(a, b)| format!("{}:{}", hex(a), hex(b))).collect::<Vec<_>>().join(",")
}

fn toks_in(s: &str) -> Vec<(String, String)> {
    if s == "[]" {
        return vec![];
    }
    s.split(',')
        .map(|p| {
            let mut it = p.split(':');
            let a = unhex(it.next().unwrap());
            let b = unhex(it.next().unwrap());
            (a, b)
        })
        .collect()
}

fn run_case(stream: &str, f: &[&str]) -> String {
    match stream {
        "l2c" => hex_list(&vh::line_to_cmds(&unhex(f[0]))),
        "tok" => {
            let (t, c) = vh::parse_line(&unhex(f[0]));
            format!("{}|{}", toks_out(&t), if c { 1 } else { 0 })
        }
        "t2l" => hex(&vh::tokens_to_line(&toks_in(f[0]))),
        "wrap" => hex(&vh::wrap_sep_string(&unhex(f[0]), &unhex(f[1]))),
        "unq" => hex(&vh::unquote(&unhex(f[0]))),
        "arith" => (if vh::is_arithmetic(&unhex(f[0])) { "1" } else { "0" }).to_string(),
        "redir" => match vh::tokens_to_redirections(&toks_in(f[0])) {
            Ok((t, r)) => {
                let rs = if r.is_empty() {
                    "[]".to_string()
                } else {
                    r.iter().map(|(a, b, c)| format!("{}:{}:{}", hex(a), hex(b), hex(c))).collect::<Vec<_>>().join(",")
                };
                format!("ok|{}|{}", toks_out(&t), rs)
            }
            Err(e) => format!("err|{}", hex(&e)),
        },
        "re" => (if vh::re_contains(&unhex(f[1]), &unhex(f[0])) { "1" } else { "0" }).to_string(),
        // list: line, then pairs text=status as `hex:int,hex:int`
        "list" => {
            let line = unhex(f[0]);
            let mut script = HashMap::new();
            if f[1] != "[]" {
                for p in f[1].split(',') {
                    let mut it = p.split(':');
                    let k = unhex(it.next().unwrap());
                    let v: i32 = it.next().unwrap().parse().unwrap();
                    script.insert(k, v);
                }
            }
            let prev: i32 = f[2].parse().unwrap();
            let mut sh = vh::new_shell();
            sh.previous_status = prev;
            let (trace, last, _n) = vh::run_command_line_scripted(&mut sh, &line, script);
            let tr = if trace.is_empty() {
                "[]".to_string()
            } else {
                trace.iter().map(|(a, b)| format!("{}:{}", hex(a), b)).collect::<Vec<_>>().join(",")
            };
            format!("{}|{}", tr, last)
        }
        _ => format!("UNKNOWN-STREAM {}", stream),
    }
}

fn main() {
    let args: Vec<String> = std::env::args().collect();
    let inp = BufReader::new(File::open(&args[1]).expect("cases file"));
    let mut out = BufWriter::new(File::create(&args[2]).expect("out file"));
    panic::set_hook(Box::new(|_| {}));
    for line in inp.lines() {
        let line = line.unwrap();
        if line.is_empty() {
            continue;
        }
        let parts: Vec<&str> = line.split('\t').collect();
        let id = parts[0];
        let stream = parts[1];
        let fields = parts[2..].to_vec();
        // progress marker for hang detection: the id of the case being run
        if let Ok(p) = std::env::var("CVH_PROGRESS") {
            let _ = std::fs::write(&p, id);
        }
        let r = panic::catch_unwind(|| run_case(stream, &fields));
        let obs = match r {
            Ok(s) => s,
            Err(e) => {
                let msg = if let Some(s) = e.downcast_ref::<String>() {
                    s.clone()
                } else if let Some(s) = e.downcast_ref::<&str>() {
                    s.to_string()
                } else {
                    "?".to_string()
                };
                format!("PANIC {}", msg.replace('\t', " ").replace('\n', " "))
            }
        };
        writeln!(out, "{}\t{}", id, obs).unwrap();
    }
}
