//! cvh — in-process correspondence harness for the Lean model of cicada.
//!
//! usage: cvh <cases-file> <out-file>
//! One case per line: `id \t stream \t field...` (strings hex-encoded UTF-8,
//! the empty string is `-`).  One output line per case: `id \t observation`.
//! Every case runs under catch_unwind; a panic is the observation `PANIC`.
use std::collections::HashMap;
use std::fs::File;
use std::io::{BufRead, BufReader, BufWriter, Write};
use std::panic;

use cicada::verif_hooks as vh;

fn unhex(s: &str) -> String {
    if s == "-" {
        return String::new();
    }
    let b: Vec<u8> = (0..s.len() / 2)
        .map(|i| u8::from_str_radix(&s[2 * i..2 * i + 2], 16).unwrap())
        .collect();
    String::from_utf8(b).expect("case is not utf-8")
}

fn hex(s: &str) -> String {
    if s.is_empty() {
        return "-".to_string();
    }
    let mut o = String::with_capacity(s.len() * 2);
    for b in s.as_bytes() {
        o.push_str(&format!("{:02x}", b));
    }
    o
}

fn hex_list(v: &[String]) -> String {
    if v.is_empty() {
        return "[]".to_string();
    }
    v.iter().map(|x| hex(x)).collect::<Vec<_>>().join(",")
}

fn toks_out(v: &[(String, String)]) -> String {
    if v.is_empty() {
        return "[]".to_string();
    }
    v.iter().map(|(a, b)| format!("{}:{}", hex(a), hex(b))).collect::<Vec<_>>().join(",")
}

fn toks_in(s: &str) -> Vec<(String, String)> {
    if s == "[]" {
        return vec![];
    }
    s.split(',')
        .map(|p| {
            let mut it = p.split(':');
            let a = unhex(it.next().unwrap());
            let b = unhex(it.next().unwrap());
            (a, b)
        })
        .collect()
}


struct EnvSpec {
    vars: Vec<(String, String)>,
    exported: Vec<(String, String)>,
    aliases: Vec<(String, String)>,
    status: i32,
    cmds: Vec<(String, String)>,
}

fn pairs_in(s: &str) -> Vec<(String, String)> {
    if s == "[]" || s.is_empty() {
        return vec![];
    }
    s.split(',')
        .map(|p| {
            let mut it = p.split(':');
            (unhex(it.next().unwrap()), unhex(it.next().unwrap()))
        })
        .collect()
}

fn env_in(s: &str) -> EnvSpec {
    let mut e = EnvSpec { vars: vec![], exported: vec![], aliases: vec![], status: 0, cmds: vec![] };
    for sec in s.split(';') {
        if sec.len() < 2 {
            continue;
        }
        let (k, v) = sec.split_at(2);
        match k {
            "v=" => e.vars = pairs_in(v),
            "x=" => e.exported = pairs_in(v),
            "a=" => e.aliases = pairs_in(v),
            "s=" => e.status = v.parse().unwrap_or(0),
            "c=" => e.cmds = pairs_in(v),
            _ => {}
        }
    }
    e
}

/// build a Shell for the case and set the process environment; returns the names to unset afterwards
fn make_shell(e: &EnvSpec) -> (vh::VShell, Vec<String>) {
    let mut names = vec![];
    for (k, v) in &e.exported {
        std::env::set_var(k, v);
        names.push(k.clone());
    }
    let mut sh = vh::new_shell();
    for (k, v) in &e.vars {
        sh.envs.insert(k.clone(), v.clone());
    }
    for (k, v) in &e.aliases {
        sh.aliases.insert(k.clone(), v.clone());
    }
    sh.previous_status = e.status;
    let mut script = HashMap::new();
    for (k, v) in &e.cmds {
        script.insert(k.clone(), v.clone());
    }
    vh::set_pipeline_script(Some(script));
    (sh, names)
}

fn drop_env(names: Vec<String>) {
    for n in names {
        std::env::remove_var(n);
    }
    vh::set_pipeline_script(None);
}

fn redirs_out(r: &[(String, String, String)]) -> String {
    if r.is_empty() {
        "[]".to_string()
    } else {
        r.iter().map(|(a, b, c)| format!("{}:{}:{}", hex(a), hex(b), hex(c))).collect::<Vec<_>>().join(",")
    }
}

fn cmd_out(c: &vh::VCommand) -> String {
    let from = match &c.redirect_from {
        Some((a, b)) => format!("{}:{}", hex(a), hex(b)),
        None => "none".to_string(),
    };
    format!("{}/{}/{}", toks_out(&c.tokens), redirs_out(&c.redirects_to), from)
}

fn pairs_out(v: &[(String, String)]) -> String {
    if v.is_empty() {
        "[]".to_string()
    } else {
        v.iter().map(|(a, b)| format!("{}:{}", hex(a), hex(b))).collect::<Vec<_>>().join(",")
    }
}

fn with_env<F: FnOnce(&mut vh::VShell) -> String>(spec: &str, f: F) -> String {
    let e = env_in(spec);
    let (mut sh, names) = make_shell(&e);
    let r = f(&mut sh);
    drop_env(names);
    r
}

fn pass<F: FnOnce(&mut vh::VShell, &mut Vec<(String, String)>)>(spec: &str, toks: &str, f: F) -> String {
    with_env(spec, |sh| {
        let mut t = toks_in(toks);
        f(sh, &mut t);
        toks_out(&t)
    })
}

/// streams that may hang or abort are run in a forked child under a watchdog
fn isolated(stream: &str) -> bool {
    matches!(stream, "xenv" | "xall" | "plan" | "subst" | "xrange" | "head" | "plan1" | "bseq" | "aliasrt" | "srun" | "jobs" | "envseq" | "cmpl" | "cmplglob")
}

fn run_isolated(stream: &str, f: &[&str], timeout_ms: i32) -> String {
    unsafe {
        let mut fds = [0i32; 2];
        if libc::pipe(fds.as_mut_ptr()) != 0 {
            return "HARNESS-ERROR pipe".to_string();
        }
        let pid = libc::fork();
        if pid == 0 {
            libc::close(fds[0]);
            let r = panic::catch_unwind(|| run_case(stream, f));
            let s = match r {
                Ok(s) => mask_pid(f, s),
                Err(e) => panic_text(e),
            };
            let b = s.as_bytes();
            let mut off = 0;
            while off < b.len() {
                let n = libc::write(fds[1], b[off..].as_ptr() as *const libc::c_void, b.len() - off);
                if n <= 0 {
                    break;
                }
                off += n as usize;
            }
            libc::_exit(0);
        }
        libc::close(fds[1]);
        let mut out: Vec<u8> = Vec::new();
        let mut buf = [0u8; 65536];
        let start = std::time::Instant::now();
        let mut result: Option<String> = None;
        loop {
            let left = timeout_ms as i128 - start.elapsed().as_millis() as i128;
            if left <= 0 {
                result = Some("HANG".to_string());
                break;
            }
            let mut pfd = libc::pollfd { fd: fds[0], events: libc::POLLIN, revents: 0 };
            let pr = libc::poll(&mut pfd, 1, left as i32);
            if pr == 0 {
                result = Some("HANG".to_string());
                break;
            }
            let n = libc::read(fds[0], buf.as_mut_ptr() as *mut libc::c_void, buf.len());
            if n <= 0 {
                break;
            }
            out.extend_from_slice(&buf[..n as usize]);
        }
        libc::close(fds[0]);
        if result.is_some() {
            libc::kill(pid, libc::SIGKILL);
        }
        let mut st = 0;
        libc::waitpid(pid, &mut st, 0);
        if let Some(r) = result {
            return r;
        }
        if out.is_empty() {
            return format!("CRASH status={}", st);
        }
        String::from_utf8_lossy(&out).to_string()
    }
}

/// `$$` expands to the pid of whichever process runs the case: report that pid next to the observation, the comparison
/// puts it in the place of the model's placeholder (rewriting the observation instead is ambiguous when a literal digit
/// stands next to `$$` and the pid repeats it: `1$$` under pid 11).
/// Only applied when the case text mentions `$$` / `${$}`.
fn mask_pid(fields: &[&str], obs: String) -> String {
    let mentions = fields.iter().map(|f| f.matches("24").count()).sum::<usize>() >= 2;
    if !mentions {
        return obs;
    }
    format!("{}\t@pid={}", obs, unsafe { libc::getpid() })
}

fn panic_text(e: Box<dyn std::any::Any + Send>) -> String {
    let msg = if let Some(s) = e.downcast_ref::<String>() {
        s.clone()
    } else if let Some(s) = e.downcast_ref::<&str>() {
        s.to_string()
    } else {
        "?".to_string()
    };
    let _ = msg;
    "PANIC".to_string()
}


// ---------------------------------------------------------------- C20: completion in a generated directory

/// create the tree `hexpath:d|f,...` in a fresh scratch directory next to the harness's cwd and enter it
fn c20_enter(tree: &str) -> (std::path::PathBuf, std::path::PathBuf) {
    let base = std::env::current_dir().expect("cwd");
    let parent = base.parent().map(|p| p.to_path_buf()).unwrap_or(base.clone());
    let scratch = parent.join(format!("c20-scratch-{}", std::process::id()));
    let _ = std::fs::remove_dir_all(&scratch);
    std::fs::create_dir_all(&scratch).expect("scratch dir");
    if tree != "[]" && !tree.is_empty() {
        for e in tree.split(',') {
            let mut it = e.split(':');
            let path = scratch.join(unhex(it.next().unwrap()));
            if it.next() == Some("d") {
                std::fs::create_dir_all(&path).expect("mkdir");
            } else {
                if let Some(p) = path.parent() {
                    std::fs::create_dir_all(p).expect("mkdir parent");
                }
                File::create(&path).expect("create entry");
            }
        }
    }
    std::env::set_current_dir(&scratch).expect("enter scratch");
    (base, scratch)
}

fn c20_leave(dirs: (std::path::PathBuf, std::path::PathBuf)) {
    let _ = std::env::set_current_dir(&dirs.0);
    let _ = std::fs::remove_dir_all(&dirs.1);
}

/// the line must be one command; its plan in the syntax of the `plan` stream
fn c20_plan_line(sh: &mut vh::VShell, line: &str) -> String {
    let items = vh::line_to_cmds(line);
    if items.len() != 1 {
        return "ERR not-one-command".to_string();
    }
    match vh::from_line(&items[0], sh) {
        Ok(p) => {
            let cmds = if p.commands.is_empty() { "[]".to_string() } else { p.commands.iter().map(cmd_out).collect::<Vec<_>>().join(";") };
            format!("ok|{}|{}|{}", if p.background { 1 } else { 0 }, pairs_out(&p.envs), cmds)
        }
        Err(e) => format!("err|{}", hex(&e)),
    }
}

fn c20_closing(sep: &str) -> &str {
    if sep == "'" || sep == "\"" || sep == "`" { sep } else { "" }
}

fn run_case(stream: &str, f: &[&str]) -> String {
    match stream {
        "l2c" => hex_list(&vh::line_to_cmds(&unhex(f[0]))),
        "tok" => {
            let (t, c) = vh::parse_line(&unhex(f[0]));
            format!("{}|{}", toks_out(&t), if c { 1 } else { 0 })
        }
        "t2l" => hex(&vh::tokens_to_line(&toks_in(f[0]))),
        "wrap" => hex(&vh::wrap_sep_string(&unhex(f[0]), &unhex(f[1]))),
        "unq" => hex(&vh::unquote(&unhex(f[0]))),
        "arith" => (if vh::is_arithmetic(&unhex(f[0])) { "1" } else { "0" }).to_string(),
        "escpath" => hex(&vh::escape_path(&unhex(f[0]))),
        "ews" => format!("{}", vh::escaped_word_start(&unhex(f[0]))),
        // the interactive highlighter on a line: `start-end:k` per range (k = 1: styled as a command)
        "hl" => {
            let r = vh::highlight_ranges(&unhex(f[0]));
            if r.is_empty() { "[]".to_string() } else {
                r.iter().map(|(a, b, g)| format!("{}-{}:{}", a, b, if *g { 1 } else { 0 })).collect::<Vec<_>>().join(",")
            }
        }
        // env, tree, ctx, prefix, typed word, for_dir, prog: complete_path in the generated directory, then every
        // candidate's line through line_to_cmds + from_line (in that directory)
        "cmpl" => with_env(f[0], |sh| {
            let dirs = c20_enter(f[1]);
            let word = unhex(f[4]);
            let prog = unhex(f[6]);
            let cs = vh::complete_path(&word, f[5] == "1");
            let (toks, _) = vh::parse_line(&word);
            let sep = toks.last().map(|t| t.0.clone()).unwrap_or_default();
            // the order of entries with one and the same inserted text is read_dir's: made canonical here (after checking
            // that the list came back sorted by inserted text)
            let sorted = cs.windows(2).all(|w| w[0].0 <= w[1].0);
            let mut outs: Vec<String> = vec![];
            let mut keyed: Vec<(String, String)> = vec![];
            for (comp, disp, sfx) in cs {
                let is_dir = sfx == "/";
                let line = format!("{} {}{}", prog, comp, if is_dir { format!("/{}", c20_closing(&sep)) } else { String::new() });
                let d = match &disp { Some(x) => hex(x), None => "~".to_string() };
                let k = if is_dir { "/".to_string() } else if sfx.is_empty() { "d".to_string() } else { sfx.clone() };
                keyed.push((comp.clone(), format!("{}@{}@{}@{}", hex(&comp), d, k, c20_plan_line(sh, &line))));
            }
            c20_leave(dirs);
            keyed.sort();
            for (_, o) in keyed {
                outs.push(o);
            }
            if !sorted {
                outs.insert(0, "UNSORTED".to_string());
            }
            if outs.is_empty() { "[]".to_string() } else { outs.join("&") }
        }),
        // tree, patterns: what the glob crate answers in the generated directory, in the `g=` syntax of the environment field
        "cmplglob" => {
            let dirs = c20_enter(f[0]);
            let mut outs: Vec<String> = vec![];
            for ph in f[1].split(',') {
                let ans = match vh::glob_query(&unhex(ph)) {
                    Some(v) => if v.is_empty() { "[]".to_string() } else { v.iter().map(|x| hex(x)).collect::<Vec<_>>().join("/") },
                    None => "!".to_string(),
                };
                outs.push(format!("{}:{}", ph, ans));
            }
            c20_leave(dirs);
            outs.join(",")
        }
        "redir" => match vh::tokens_to_redirections(&toks_in(f[0])) {
            Ok((t, r)) => {
                let rs = if r.is_empty() {
                    "[]".to_string()
                } else {
                    r.iter().map(|(a, b, c)| format!("{}:{}:{}", hex(a), hex(b), hex(c))).collect::<Vec<_>>().join(",")
                };
                format!("ok|{}|{}", toks_out(&t), rs)
            }
            Err(e) => format!("err|{}", hex(&e)),
        },
        "re" => (if vh::re_contains(&unhex(f[1]), &unhex(f[0])) { "1" } else { "0" }).to_string(),
        // list: line, then pairs text=status as `hex:int,hex:int`
        "list" => {
            let line = unhex(f[0]);
            let mut script = HashMap::new();
            if f[1] != "[]" {
                for p in f[1].split(',') {
                    let mut it = p.split(':');
                    let k = unhex(it.next().unwrap());
                    let v: i32 = it.next().unwrap().parse().unwrap();
                    script.insert(k, v);
                }
            }
            let prev: i32 = f[2].parse().unwrap();
            let mut sh = vh::new_shell();
            sh.previous_status = prev;
            let (trace, last, _n) = vh::run_command_line_scripted(&mut sh, &line, script);
            let tr = if trace.is_empty() {
                "[]".to_string()
            } else {
                trace.iter().map(|(a, b)| format!("{}:{}", hex(a), b)).collect::<Vec<_>>().join(",")
            };
            format!("{}|{}", tr, last)
        }

        "xalias" => pass(f[0], f[1], |sh, t| vh::expand_alias(sh, t)),
        "xhome" => pass(f[0], f[1], |_sh, t| vh::expand_home(t)),
        "xenv" => pass(f[0], f[1], |sh, t| vh::expand_env(sh, t)),
        "xbrace" => pass("-", f[0], |_sh, t| vh::expand_brace(t)),
        "xrange" => pass("-", f[0], |_sh, t| vh::expand_brace_range(t)),
        "xall" => pass(f[0], f[1], |sh, t| vh::do_expansion(sh, t)),
        "xglob" => pass(f[0], f[1], |_sh, t| vh::expand_glob(t)),
        "subst" => pass(f[0], f[1], |sh, t| vh::do_command_substitution(sh, t)),
        "envin" => (if vh::env_in_token(&unhex(f[0])) { "1" } else { "0" }).to_string(),
        "needbrace" => (if vh::need_expand_brace(&unhex(f[0])) { "1" } else { "0" }).to_string(),
        "shoulddollar" => (if vh::should_do_dollar(&unhex(f[0])) { "1" } else { "0" }).to_string(),
        "oneenv" => with_env(f[0], |sh| hex(&vh::expand_envs_in_token(sh, &unhex(f[1])))),
        "pipes" => {
            let v = vh::split_tokens_by_pipes(&toks_in(f[0]));
            if v.is_empty() { "[]".to_string() } else { v.iter().map(|c| toks_out(c)).collect::<Vec<_>>().join(";") }
        }
        "drain" => {
            let mut t = toks_in(f[0]);
            let m = vh::drain_env_tokens(&mut t);
            let mut e: Vec<(String, String)> = m.into_iter().collect();
            e.sort();
            format!("{}|{}", pairs_out(&e), toks_out(&t))
        }
        "ftok" => match vh::from_tokens(toks_in(f[0])) {
            Ok(c) => format!("ok|{}", cmd_out(&c)),
            Err(e) => format!("err|{}", hex(&e)),
        },
        "plan" => with_env(f[0], |sh| match vh::from_line(&unhex(f[1]), sh) {
            Ok(p) => {
                let cmds = if p.commands.is_empty() { "[]".to_string() } else { p.commands.iter().map(cmd_out).collect::<Vec<_>>().join(";") };
                format!("ok|{}|{}|{}", if p.background { 1 } else { 0 }, pairs_out(&p.envs), cmds)
            }
            Err(e) => format!("err|{}", hex(&e)),
        }),
        "plan1" => with_env(f[0], |sh| {
            let items = vh::line_to_cmds(&unhex(f[1]));
            if items.is_empty() {
                return "empty".to_string();
            }
            match vh::from_line(&items[0], sh) {
                Ok(p) => {
                    let cmds = if p.commands.is_empty() { "[]".to_string() } else { p.commands.iter().map(cmd_out).collect::<Vec<_>>().join(";") };
                    format!("ok|{}|{}|{}", if p.background { 1 } else { 0 }, pairs_out(&p.envs), cmds)
                }
                Err(e) => format!("err|{}", hex(&e)),
            }
        }),
        "bseq" => with_env(f[0], |sh| {
            let mut outs: Vec<String> = vec![];
            if f[1] != "[]" {
                for hl in f[1].split(',') {
                    let line = unhex(hl);
                    if line.starts_with("use ") {
                        let (mut t, _) = vh::parse_line(&line[4..]);
                        vh::expand_alias(sh, &mut t);
                        outs.push(format!("use|{}", toks_out(&t)));
                        continue;
                    }
                    match vh::run_builtin_line(sh, &line) {
                        Ok(Some(cr)) => {
                            let mut ls: Vec<&str> = cr.stdout.split('\n').collect();
                            ls.sort();
                            outs.push(format!("{}|{}|{}", cr.status, hex(&ls.join("\n")), hex(&cr.stderr)));
                        }
                        Ok(None) => outs.push("not-builtin".to_string()),
                        Err(e) => outs.push(format!("err|{}", hex(&e))),
                    }
                }
            }
            format!("{}#{}", outs.join(";"), pairs_out(&vh::alias_table(sh)))
        }),
        "aliasrt" => {
            let lines: Vec<String> = with_env(f[0], |sh| match vh::run_builtin_line(sh, "alias") {
                Ok(Some(cr)) => cr.stdout,
                _ => String::new(),
            })
            .split('\n')
            .map(|x| x.to_string())
            .collect();
            let mut sorted = lines.clone();
            sorted.sort();
            with_env("-", |sh| {
                for l in &sorted {
                    if !l.is_empty() {
                        let _ = vh::run_builtin_line(sh, l);
                    }
                }
                pairs_out(&vh::alias_table(sh))
            })
        }
        "xpargs" => {
            let args: Vec<String> = if f[1] == "[]" { vec![] } else { f[1].split(',').map(unhex).collect() };
            hex(&vh::expand_args(&unhex(f[0]), &args))
        }
        "xpargtok" => {
            let args: Vec<String> = if f[1] == "[]" { vec![] } else { f[1].split(',').map(unhex).collect() };
            hex(&vh::expand_args_token(&unhex(f[0]), &args))
        }
        "argsin" => (if vh::is_args_in_token(&unhex(f[0])) { "1" } else { "0" }).to_string(),
        "ptree" => match vh::parse_script(&unhex(f[0])) {
            Ok(s) => s,
            Err(_) => "SYNTAX-ERROR".to_string(),
        },
        "srun" => with_env(f[0], |sh| {
            let text = unhex(f[1]);
            let args: Vec<String> = if f[2] == "[]" { vec![] } else { f[2].split(',').map(unhex).collect() };
            let mut seq: HashMap<String, Vec<i32>> = HashMap::new();
            if f[3] != "[]" {
                for p in f[3].split(',') {
                    let mut it = p.split(':');
                    let k = unhex(it.next().unwrap());
                    let v: Vec<i32> = it.next().unwrap().split('.').filter_map(|x| x.parse().ok()).collect();
                    seq.insert(k, v);
                }
            }
            let watch: Vec<String> = if f[4] == "[]" { vec![] } else { f[4].split(',').map(unhex).collect() };
            if vh::parse_script(&text).is_err() {
                return "SYNTAX-ERROR".to_string();
            }
            vh::set_run_proc_seq(Some(seq), watch);
            let _ = vh::run_script_text(sh, &text, &args);
            let tr = vh::take_seq_trace();
            vh::set_run_proc_seq(None, vec![]);
            if tr.is_empty() {
                "[]".to_string()
            } else {
                tr.iter().map(|(l, s, vs)| format!("{}:{}:{}", hex(l), s, vs.iter().map(|x| hex(x)).collect::<Vec<_>>().join("/"))).collect::<Vec<_>>().join(",")
            }
        }),
        "envseq" => {
            // f0: initial environment `hexN=hexV,…`; f1: watched names; f2: lines; f3: start directory
            for (k, _) in std::env::vars() { std::env::remove_var(k); }
            for (k, v) in pairs_in(f[0]) { std::env::set_var(k, v); }
            let _ = std::env::set_current_dir(unhex(f[3]));
            let mut sh = vh::new_shell();
            vh::set_real_builtins(true);
            vh::set_pipeline_script(Some(HashMap::new()));
            let names: Vec<String> = if f[1] == "[]" { vec![] } else { f[1].split(',').map(unhex).collect() };
            let opt = |o: Option<String>| match o { Some(x) => hex(&x), None => "~".to_string() };
            let mut outs: Vec<String> = vec![];
            for hl in f[2].split(',') {
                let line = unhex(hl);
                let _ = vh::take_pipeline_envs();
                let st = vh::run_command_line(&mut sh, &line);
                let envs = vh::take_pipeline_envs();
                let cwd = std::env::current_dir().map(|p| p.to_string_lossy().to_string()).unwrap_or_default();
                let obs: Vec<String> = names.iter().map(|n| format!("{}.{}.{}",
                    hex(&vh::expand_envs_in_token(&sh, &format!("${{{}}}", n))),
                    opt(std::env::var(n).ok()), opt(sh.envs.get(n).cloned()))).collect();
                let es: Vec<String> = envs.iter().map(|e| pairs_out(e)).collect();
                outs.push(format!("{};{};{};{};{}", st, hex(&cwd), hex(&sh.previous_dir), obs.join(","), if es.is_empty() { "[]".to_string() } else { es.join("/") }));
            }
            outs.join("|")
        }
        "jobs" => {
            let mut sh = vh::new_shell();
            vh::set_wait_events(Some(vec![]));
            let mut outs: Vec<String> = vec![];
            let nums = |s: &str| -> Vec<i32> { if s.is_empty() || s == "-" { vec![] } else { s.split('.').filter_map(|x| x.parse().ok()).collect() } };
            let table = |sh: &vh::VShell| -> String {
                let t = vh::job_table(sh);
                if t.is_empty() { return "[]".to_string(); }
                t.iter().map(|(id, gid, pids, st, status, bg)| format!("{}:{}:{}:{}:{}:{}", id, gid,
                    pids.iter().map(|x| x.to_string()).collect::<Vec<_>>().join("."),
                    st.iter().map(|x| x.to_string()).collect::<Vec<_>>().join("."), status, if *bg { 1 } else { 0 })).collect::<Vec<_>>().join(",")
            };
            for op in f[0].split(';') {
                let p: Vec<&str> = op.split(':').collect();
                let mut pre = String::new();
                match p[0] {
                    "L" => {
                        let gid: i32 = p[2].parse().unwrap();
                        for pid in nums(p[3]) {
                            sh.insert_job(gid, pid, "cmd", "Running", p[1] == "1");
                        }
                    }
                    "E" => {
                        let pid: i32 = p[2].parse().unwrap();
                        let v: i32 = p[3].parse().unwrap_or(0);
                        vh::push_wait_event(match p[1] {
                            "e" => vh::ws_exited(pid, v),
                            "k" => vh::ws_signaled(pid, v),
                            "s" => vh::ws_stopped(pid, v),
                            _ => vh::ws_continued(pid),
                        });
                    }
                    "W" => {
                        let gid: i32 = p[1].parse().unwrap();
                        let pids = nums(p[2]);
                        let cr = vh::wait_fg_job(&mut sh, gid, &pids);
                        let rest = vh::drain_wait_events();
                        pre = format!("W={}/{} ", cr.status, rest.len());
                        for e in rest { vh::push_wait_event(e); }
                    }
                    "P" => {
                        if !vh::job_table(&sh).is_empty() {
                            for e in vh::drain_wait_events() { vh::park_event(&e); }
                            vh::try_wait_bg_jobs(&mut sh);
                        }
                    }
                    _ => {}
                }
                outs.push(format!("{}{}", pre, table(&sh)));
            }
            let view = {
                let t = vh::job_table(&sh);
                if t.is_empty() { "[]".to_string() } else {
                    let mut v: Vec<(i32, String)> = t.iter().map(|(_, gid, pids, _, status, _)| (*gid, format!("{}:{}:{}", gid,
                        pids.iter().map(|x| x.to_string()).collect::<Vec<_>>().join("."), if status == "Stopped" { "Stopped" } else { "Running" }))).collect();
                    v.sort();
                    v.into_iter().map(|x| x.1).collect::<Vec<_>>().join(",")
                }
            };
            vh::set_wait_events(None);
            format!("{}#{}", outs.join("|"), view)
        }
        "globq" => match vh::glob_query(&unhex(f[0])) {
            Some(v) => if v.is_empty() { "[]".to_string() } else { v.iter().map(|x| hex(x)).collect::<Vec<_>>().join("/") },
            None => "!".to_string(),
        },
        "head" => with_env(f[0], |sh| {
            let line = unhex(f[1]);
            match vh::run_pipeline_captured(sh, &line) {
                Ok(cr) => {
                    let log = vh::take_pipeline_log();
                    let float = vh::is_arithmetic(&line) && line.contains('.') && cr.status == 0;
                    format!("st={}|out={}|err={}|log={}", cr.status, if float { "F".to_string() } else { hex(&cr.stdout) }, hex(&cr.stderr), hex_list(&log))
                }
                Err(e) => format!("err|{}", hex(&e)),
            }
        }),
        "calc" => {
            let line = unhex(f[0]);
            match vh::run_calculator(&line) {
                Ok(s) => format!("ok|{}", if line.contains('.') { "F".to_string() } else { hex(&s) }),
                Err(_) => "err".to_string(),
            }
        }
        "calcf" => {
            // the printed result itself (float mode included): compared on the exactly representable class only
            let line = unhex(f[0]);
            match vh::run_calculator(&line) {
                Ok(s) => format!("ok|{}", hex(&s)),
                Err(_) => "err".to_string(),
            }
        }
        _ => format!("UNKNOWN-STREAM {}", stream),
    }
}

fn main() {
    let args: Vec<String> = std::env::args().collect();
    let inp = BufReader::new(File::open(&args[1]).expect("cases file"));
    let mut out = BufWriter::new(File::create(&args[2]).expect("out file"));
    if std::env::var("CVH_SHOWPANIC").is_err() { panic::set_hook(Box::new(|_| {})); }
    // deterministic process environment: every variable a case needs is set by the case itself
    if let Ok(d) = std::env::var("CVH_CWD") {
        std::env::set_current_dir(&d).expect("CVH_CWD");
    }
    let keys: Vec<String> = std::env::vars().map(|(k, _)| k).collect();
    let progress = std::env::var("CVH_PROGRESS").ok();
    for k in keys {
        std::env::remove_var(k);
    }
    for line in inp.lines() {
        let line = line.unwrap();
        if line.is_empty() {
            continue;
        }
        let parts: Vec<&str> = line.split('\t').collect();
        let id = parts[0];
        let stream = parts[1];
        let fields = parts[2..].to_vec();
        // progress marker for hang detection: the id of the case being run
        if let Some(p) = &progress {
            let _ = std::fs::write(p, id);
        }
        let obs = if isolated(stream) {
            run_isolated(stream, &fields, 3000)
        } else {
            match panic::catch_unwind(|| run_case(stream, &fields)) {
                Ok(s) => mask_pid(&fields, s),
                Err(e) => panic_text(e),
            }
        };
        writeln!(out, "{}\t{}", id, obs).unwrap();
    }
}
